#!/bin/bash
# usage: tools/seeded_matrix.sh <seeded dir> [checks...]  (default: all 20 quick checks)
# Confirms the seeded change in a scratch worktree of /repo HEAD (demo clean passes / patched fails, pinned suite passes with the patch)
# and runs the quick checks against the patched tree via EAO_REPO. Writes <dir>/result.json. Removes the worktree afterwards.
S=$(realpath "$1"); shift
CHECKS="$@"; [ -z "$CHECKS" ] && CHECKS="C01 C02 C03 C04 C05 C06 C07 C08 C09 C10 C11 C12 C13 C14 C15 C16 C17 C18 C19 C20"
W=$(mktemp -d /tmp/sw_XXXXXX)
git -C /repo worktree add -q --detach "$W" HEAD || exit 9
cd "$W"
PYTHONPATH="$W" timeout 900 /venv/bin/python "$S/demo.py" > "$W/.demo_clean.txt" 2>&1; c=$?
if ! git apply "$S/patch.diff" 2> "$W/.apply.txt"; then echo "{\"error\": \"patch does not apply\"}" > "$S/result.json"; cd /; git -C /repo worktree remove --force "$W"; exit 8; fi
PYTHONPATH="$W" timeout 900 /venv/bin/python "$S/demo.py" > "$W/.demo_patched.txt" 2>&1; p=$?
suite=$(/verif/tools/run_suite.sh $W | tr '\n' ' ')
cd /verif
caught=""; res="{"
for P in $CHECKS; do
  out=$(EAO_REPO="$W" EAO_NO_EVIDENCE=1 ./check $P quick --shards ${MATRIX_SHARDS:-5} 2>&1); rc=$?
  w=$(echo "$out" | grep -E 'witness' | head -1 | cut -c12-330 | sed 's/\\/\\\\/g; s/"/\\"/g')
  res="$res\"$P\": {\"exit\": $rc, \"witness\": \"$w\"},"
  [ $rc -eq 1 ] && caught="$caught $P"
done
res="${res%,}}"
cat > "$S/result.json" <<EOT
{"repo_head": "$(git -C /repo rev-parse --short HEAD)", "demo_clean_exit": $c, "demo_patched_exit": $p, "demo_patched_last_line": "$(tail -1 $W/.demo_patched.txt | cut -c1-200 | sed 's/\\/\\\\/g; s/"/\\"/g')",
 "suite_with_patch": "$suite", "caught_by": "$(echo $caught)", "checks": $res}
EOT
echo "$(basename $S): demo clean=$c patched=$p suite=[$suite] caught_by=[$caught ]"
git -C /repo worktree remove --force "$W"
