#!/venv/bin/python
"""Write seeded/<id>/meta.json (from the hand-written table below + result.json) and seeded/MATRIX.md."""
import os, json, glob

HERE = os.path.dirname(os.path.dirname(os.path.abspath(__file__)))
NEEDS = {
 'C01_a': ('create_nodal_restr stops scanning a node\'s time steps after the first step without dispatch variables (assumes contiguous activity)',
           'a node where ALL attached assets are windowed, leaving a gap mid-horizon with activity again afterwards'),
 'C01_b': ('split set-up shifts the interval mapping by mappings[-1].index.max()+1 instead of the number of variables',
           'split optimisation + an OrderBook as LAST asset whose trailing orders have no step in a non-final interval (unmapped trailing variables)'),
 'C02_a': ('storage inflow vector built without the dt conversion (rate used as per-step volume)', 'Storage with inflow != 0 on a grid whose step is not one main time unit'),
 'C02_b': ('take proration sums dt over mapping rows instead of unique steps', 'Contract with min/max take AND extra_costs AND capacities of both signs (two variables per step)'),
 'C03_a': ('optimize works on the problem\'s own mapping: make_soft_problem=True overwrites the bool column for good', 'a relaxed optimize call followed by a normal call on the same MIP OptimProblem'),
 'C03_b': ('status test uses cvxpy SOLUTION_PRESENT: optimal_inaccurate is returned as success', 'a problem on which the solver ends optimal_inaccurate (badly scaled data)'),
 'C04_a': ('split set-up advances the result offset by mapping_tmp.index.nunique() instead of the cost-vector length', 'split optimisation + an OrderBook with an order that has no step in some non-final interval'),
 'C04_b': ('Asset.dcf only counts mapping rows of type d / i', 'ScaledAsset with fix_costs != 0 and an optimal scale > 0 (scale variable has type "size")'),
 'C05_a': ('storage inflow taken as inflow * restricted.Dt (cumulative time since the PORTFOLIO grid start)', 'Storage with inflow != 0 whose window / interval grid / coarse grid does not start at the grid origin'),
 'C05_b': ('no_simult_in_out "in" rows use the discharge capacity in the binary coefficient', 'no_simult_in_out with separate in/out variables, cap_in > cap_out and an incentive to do both (negative prices, lossy)'),
 'C06_a': ('min-downtime rows skip i >= t instead of i > t', 'min_downtime > 1, plant declared already running, optimum shuts down in step 0 and wants back early'),
 'C06_b': ('last_dispatch no longer scaled by dt[0] (ramp still is)', 'ramp set, last_dispatch != 0, grid freq != main time unit'),
 'C07_a': ('portfolio offset counted from the number of distinct mapping indices instead of len(l)', 'an OrderBook with an order without in-horizon step that is not the last asset'),
 'C07_b': ('periodic merge relabels only the current group\'s rows (II) instead of all rows of the joined variables (out)', 'periodicity on an asset with several rows per variable (Transport, multi-commodity) and a horizon longer than one period'),
 'C08_a': ('take proration from min(e, restricted.end) - max(s, restricted.start) (asset window, not clipped to the horizon)', 'take period straddling a horizon edge AND an explicit asset start/end beyond that edge'),
 'C08_b': ('coarse restricted grid: dt of a coarse step = (b-a) instead of the sum of the covered fine steps', 'asset with own coarser freq whose window starts before / ends after the horizon so that a coarse step straddles the edge'),
 'C09_a': ('Timegrid gets default discount factors and Asset.set_timegrid skips set_wacc for wacc == 0 (stale factors on the shared grid)', 'portfolio with mixed wacc and a zero-wacc asset ordered after a non-zero one'),
 'C09_b': ('two-node Storage builds its node column as a fixed-width numpy string array (output node name truncated)', 'Storage with two nodes where the output node\'s name is longer than the input node\'s'),
 'C10_a': ('the protective copy in values_to_grid only happens when "end" is missing', 'interval dictionary with explicit end and naive dates used first on a zone-aware grid, then on another zone / naive grid'),
 'C10_b': ('CHPAsset stores the default ramp_freq (main time unit of the first grid) on the asset', 'Plant/CHP with start or shutdown ramps and ramp_freq=None set up on two grids with different main time unit'),
 'C11_a': ('numpy date arrays serialised with astype(int64) (unit-less), loader reads nanoseconds', 'numpy datetime64 array in a unit other than ns as start/end of an interval dictionary'),
 'C11_b': ('loaded Timegrid is constructed without main_time_unit', 'portfolio saved with its own grid whose main_time_unit != "h"'),
 'C12_a': ('include_start_variables tests self.min_runtime (main units) instead of the converted step count', 'Plant/CHP on a grid finer than the main unit, min_runtime <= 1 main unit but > 1 step, no start costs / ramps / start fuel'),
 'C12_b': ('coarse weights 1/len(I) instead of dt_minor/dt_major (same change as C13_a)', 'own coarser freq over fine steps of unequal length (daily grid over a DST switch)'),
 'C13_a': ('coarse weights 1/len(I) instead of dt_minor/dt_major', 'own coarser freq over fine steps of unequal length (daily CET grid, weekly asset over a DST week)'),
 'C13_b': ('spare leading duration boundary kept when durations[1] == tp[0] (< instead of <=)', 'periodicity_duration set and the grid start exactly on a duration boundary'),
 'C14_a': ('the closing interval end is appended only if the last interval point < last TIME POINT (should be < end)', 'horizon = k full intervals + exactly one left-over step'),
 'C14_b': ('original step labels computed as time_step + i*T_interval (assumes equal interval lengths)', 'split with intervals of unequal length (unaligned horizon, DST days, months)'),
 'C15_a': ('date window compared on zone-stripped local clock time', 'zone-aware grid and a date given in another zone, or a window ending in the repeated hour of the autumn switch'),
 'C15_b': ('window variables chosen from the FIRST mapping row per variable only', 'variable with rows at different steps (coarse freq, periodicity) and a window (mask/index) that misses its first step'),
 'C16_a': ('ScaledAsset: l = op.l without copy (aliased, overwritten before building the lower scaling rows)', 'base with negative or positive lower bound and max_scale/norm_scale != 1'),
 'C16_b': ('fix costs multiplied with the number of steps T instead of dt.sum()', 'fix_costs != 0 on a grid whose step is not one main time unit'),
 'C17_a': ('make_slp repeats per sample only the rows WITHOUT present variables', 'non-empty present stage and a restriction spanning the boundary (storage, take)'),
 'C17_b': ('robust target skips cost samples that are elementwise dominated by another sample', 'elementwise ordered scenario cost vectors and a portfolio that sells (cheap scenario is the worst case)'),
 'C18_a': ('extract_output negates res.duals["N"] in place', 'two extract_output calls on the same result object'),
 'C18_b': ('split: nodal-restriction steps remapped as step + i*T_interval', 'split with intervals of unequal length'),
 'C19_a': ('coarse restricted grid: dt of a coarse step = (b-a) instead of the sum of the covered fine steps (same as C08_b)', 'coarse window not aligned with the reference grid'),
 'C19_b': ('values_to_grid stops at the first interval starting at/after the grid end ("remaining intervals start later")', 'interval list not in time order with a late entry listed before entries inside the grid'),
 'C20_a': ('order dispatch factor multiplied by the discount factor (dt*disc reused)', 'OrderBook with wacc != 0 on a longer horizon'),
 'C01_c': ('optimal_inaccurate folded into the success branch of optimize (round 2; same mechanism as C03_b)', 'a badly scaled problem on which CLARABEL ends optimal_inaccurate with residuals in the nodal equalities'),
 'C01_d': ('nodal restrictions cached on the Portfolio with a key that omits disp_factor (round 2)', 'set up, change a factor-only parameter (transport efficiency, commodity factors) on the asset object, set up again on the same Portfolio'),
 'C02_c': ('take volume divided by the summed dt of the covered steps instead of the full period length (round 2)', 'take period partly outside the horizon with non-zero volume and a binding restriction'),
 'C02_d': ('Timegrid.set_wacc returns early for wacc == 0 when factors exist (stale discount factors on the shared grid; round 2)', 'mixed wacc in one portfolio with a zero-wacc asset after a non-zero one'),
 'C03_c': ('cvxpy branch solves nodal rows with right-hand side 0 instead of b (round 2)', 'an OptimProblem with a non-zero right-hand side in a row of type N (directly constructed / user-set b)'),
 'C05_c': ('Storage.fill_level adds inflow over timegrid.restricted (shared, overwritten by the asset set up last) instead of the storage\'s own steps (round 2)', 'inflow != 0, windowed storage, a later asset in the portfolio with another window'),
 'C06_c': ('last_dispatch converted with convert_to_timegrid_freq (duration -> steps) instead of * dt (round 2)', 'ramp set, last_dispatch != 0, grid step != main time unit'),
 'C07_c': ('make_vector: "if default_value:" instead of "is not None" - default 0 never applied (round 2)', 'a cost parameter with default 0 (start_costs, running_costs, extra_costs ...) given as interval data that does not cover the whole horizon'),
 'C07_d': ('split set-up translates the interval problem\'s OWN mapping (no deepcopy) (round 2)', 'split optimisation with >= 2 non-empty intervals (and a MIP asset for the functional consequence)'),
 'C08_c': ('prorated take value written back into the asset\'s take dictionary (round 2)', 'Contract with a take period only partly covered and at least two set-ups on the same object'),
 'C10_c': ('StructuredAsset restores the wrapped assets\' start/end only if BOTH its own start and end are set (round 2)', 'structured asset with exactly one of start/end, wrapped asset with own window reaching beyond, same objects reused afterwards'),
 'C10_d': ('coarse restricted grid cached on the Timegrid keyed by (start, end, freq): stale discount factors (round 2)', 'two assets with the same own freq and window but different wacc set up on the same grid object'),
 'C11_c': ('zone-aware dates with UTC offset 0 are saved as naive ("if not obj.utcoffset()") (round 2)', 'zone-aware dates in UTC (or another offset-0 zone) inside an object, used with a grid in another zone'),
 'C11_d': ('ScaledAsset JSON drops its own start/end (merged with the OrderBook special case) (round 2)', 'ScaledAsset with its own start/end inside the grid and fix_costs != 0'),
 'C12_c': ('no_simult_in_out "out" rows use the rate cap_out instead of the per-step volume cap_out*dt (round 2)', 'no_simult_in_out with separate in/out variables and steps longer than one main time unit'),
 'C13_c': ('define_restr sets the take coefficient (=) instead of summing the weights of a variable\'s rows (+=) (round 2)', 'own coarser freq combined with min/max take on the same asset'),
 'C14_c': ('split interval points built with union(end) only: the piece before the first anchor is lost for anchored sizes (round 2)', 'anchored interval size (W, MS, ...) and a horizon starting off the anchor'),
 'C14_d': ('split interval grids built without main_time_unit (re-introduces the defect fixed in 210c346) (round 2)', 'split + main time unit != h + wacc / take / durations'),
 'C15_c': ('pinned values clipped to the bounds of the NEW set-up (round 2)', 'bounds that come from the data set (capacity given as price key) and a new data set that tightens them inside the fixed window'),
 'C16_c': ('ScaledAsset box bounds of the dispatch variables drop "/ norm_scale" (round 2)', 'norm_scale < 1 and a scale above max_scale*norm_scale with a binding flow capacity'),
 'C16_d': ('ScaledAsset fix-cost duration from restricted.end - restricted.start (unclipped asset window) (round 2)', 'ScaledAsset window overhanging the horizon or not aligned with the steps'),
 'C17_c': ('make_slp repeats only rows whose future coefficients do not SUM to zero (round 2)', 'a restriction whose future coefficients cancel (node with one feeding asset and an outgoing transport)'),
 'C17_d': ('ScaledAsset: set_timegrid moved below the costs_only shortcut (cost samples use the base asset\'s window) (round 2)', 'ScaledAsset with fix_costs != 0 whose window differs from its base asset\'s, robust optimisation'),
 'C18_c': ('StructuredAsset: result of cType.replace discarded (re-introduces the defect fixed in b24b651) (round 2)', 'LP portfolio with a structured asset that has an internal node; nodal prices read'),
 'C19_c': ('prices_to_grid recognises gridded data only if the index is a RangeIndex (round 2)', 'price DataFrame / Series with integer labels that are not a RangeIndex'),
 'C20_c': ('orders whose start lies before the horizon start are skipped (round 2)', 'an order that starts before the grid start and ends inside it'),
 # ---- round 3 (fresh sub-agents on the repaired tree, told what rounds 1 and 2 had produced)
 'C01_e': ('Portfolio.setup_optim_problem appends nodes without variables to its mutable default skip_nodes list (persists across calls)', 'a set-up in which all assets of a node are outside the grid followed by one where the node is active (split with a node active only in later intervals; rolling use)'),
 'C01_f': ('optimize rounds the booleans flagged in self.mapping after a relaxed (make_soft_problem) solve', 'make_soft_problem=True, a boolean that enters a node balance (full_exec order, fuel consumption if on) and a fractional relaxed optimum'),
 'C02_e': ('holding costs only charged when the storage has its own price (indentation)', 'cost_store != 0 on a one-variable storage (eff_in 1, no in/out costs, one node) without own price'),
 'C02_f': ('discount exponent Dt/24 (assumes main time unit h)', 'main_time_unit other than h and wacc != 0'),
 'C03_d': ('booleans with l == u lose their boolean flag in optimize', 'a MIP in which a boolean is fixed to a fraction (e.g. pinned to a relaxed result)'),
 'C03_e': ('cvxpy SolverError swallowed and reported as "not successful"', 'a feasible MIP solved with an explicit LP-only solver (CLARABEL)'),
 'C04_c': ('Asset.dcf returns zeros when timegrid.restricted.T == 0 (shared grid: the window of the asset set up LAST)', 'the last asset of the portfolio lies wholly outside the horizon'),
 'C04_d': ('split optimize: value of an interval added only if the interval has duals (MIP intervals skipped)', 'split optimisation with an interval that contains binary variables'),
 'C05_d': ('max_store_duration rows use the storage size as big-M instead of the row-specific bound', 'max_store_duration and an incentive to end above the end level (negative prices at the end) or start level / inflow > 0'),
 'C05_e': ('block loop subtracts in place on a view of the cumulative inflow', 'inflow != 0 with block_size and >= 3 blocks'),
 'C06_d': ('include_start_variables tests the raw min_runtime (main units) instead of steps (same mechanism as C12_a)', 'grid finer than the main unit, 0 < min_runtime <= 1 unit, no start costs / fuel / ramps'),
 'C06_e': ('consumption_if_on scaled with dt[0] only', 'fuel node, consumption_if_on != 0, daily steps over a DST switch'),
 'C07_e': ('cost block of the shutdown variables sized with the full grid T', 'Plant/CHP with start or shutdown ramp and an own window shorter than the grid'),
 'C07_f': ('periodic merge: the joined-groups memory is reset per node (costs and columns added twice; same change as C13_e)', 'periodic Transport / ExtendedTransport with costs or take on a grid longer than one period'),
 'C08_d': ('order window start taken as the grid step the start falls into (tp[-1] wrap-around for starts before the grid)', 'an order starting before the horizon or lying wholly after it'),
 'C08_e': ('StructuredAsset clips the wrapped assets with a.end = max(a.end, self.end) (same as C16_f; rebased onto the window fix e504c0e)', 'structured asset with own end around an asset with a different own end'),
 'C09_c': ('StructuredAsset clips each wrapped asset with the running intersection of all previous ones (rebased onto e504c0e)', 'structured asset with own window, >= 2 wrapped assets with different windows, inner list permuted'),
 'C09_d': ('coarse mapping extension runs pd.to_numeric over every mapping column (names that look like numbers become numbers)', 'asset with own coarser freq and a numeric-looking asset or node name'),
 'C10_e': ('ExtendedTransport negates the take values in place on the caller\'s numpy array', 'min_take / max_take values given as a float numpy array and two set-ups'),
 'C10_f': ('Asset.set_timegrid drops the asset\'s own freq for good when it equals the grid\'s', 'asset with own freq set up on a grid of that frequency, then on a finer grid'),
 'C11_e': ('Timegrid JSON stores the canonical pandas spelling of freq (d -> D)', 'portfolio saved with its own daily grid, Plant/CHP with own freq / ramp_freq equal to the grid\'s (compared as text)'),
 'C11_f': ('prep_date_dict localises naive dates only if they are not already pd.Timestamp (loaded objects hold Timestamps)', 'zone-aware grid, take periods given as naive datetimes, set-up of the loaded object'),
 'C12_d': ('storage holding cost: dt pulled out of the tail sum (equal steps assumed)', 'cost_store != 0 on a grid with unequal steps'),
 'C12_e': ('first-step ramp row uses the raw last_dispatch attribute (rate) next to the converted ramp', 'Plant/CHP without on/off variables, ramp, last_dispatch != 0, dt != 1'),
 'C13_d': ('coarse step length b-a instead of the covered fine steps (same as C08_b / C19_a)', 'coarse asset whose window reaches beyond the horizon off the coarse grid'),
 'C13_e': ('periodic merge: joined-groups memory reset per node (same as C07_f)', 'periodic Transport with costs / take'),
 'C14_e': ('cumulative storage inflow from restricted.Dt (time since the horizon start; same as C05_a)', 'Storage with inflow and a split with >= 2 intervals'),
 'C14_f': ('prorated take written back into the shared take definition (rescaled per interval)', 'take OBLIGATION (min_take > 0) over a period spanning several split intervals'),
 'C15_d': ('fix_time_window["I"] normalised in place with np.flatnonzero (not idempotent)', 'integer index window, or the same dictionary reused'),
 'C15_e': ('only dispatch variables (type d) are pinned', 'asset with non-dispatch variables in the window (scale variable, binaries)'),
 'C16_e': ('fix costs of the scaled asset discounted', 'ScaledAsset with wacc != 0 and fix_costs != 0'),
 'C16_f': ('same as C08_e', 'structured asset with own end around an asset with a different own end'),
 'C17_e': ('make_slp: a variable is future if ANY of its mapping rows is (rebased onto 9408c59)', 'variables with rows on both sides of the stage boundary (orders, coarse assets)'),
 'C17_f': ('fix_time_window pins only d / i variables (same mechanism as C15_e)', 'ScaledAsset (size variable) in the present stage'),
 'C18_d': ('nodal prices divided by the discount factor of the shared grid', 'wacc != 0 on the asset set up last, steps away from the start'),
 'C18_e': ('nodal rows equilibrated (divided by their largest coefficient), duals not scaled back', 'a node whose balance row has a largest coefficient != 1 (efficiency, fuel, commodity factors, coarse weights)'),
 'C19_d': ('dt constant for Tick frequencies (daily steps treated as 24 h)', 'daily grid in a DST zone over a switch'),
 'C19_e': ('coarse restricted grid keeps the incomplete last interval up to the REFERENCE grid end', 'coarse asset with own end before the grid end'),
 'C20_d': ('order windows compared on zone-stripped wall-clock time', 'zone-aware grid and order dates quoted in another zone'),
 'C20_e': ('order cost vector inherits the integer dtype of capa * price (in-place update truncates)', 'integer capa and price with a non-integer discounted duration'),
 'C20_b': ('OrderBook skips set_timegrid when it already holds this grid object (reads another asset\'s restricted grid / wacc)', 'portfolio set up twice on the same Timegrid object with a windowed / other-wacc asset handled just before the book'),
}
rows = []
for d in sorted(glob.glob(os.path.join(HERE, 'seeded', 'C??_?'))):
    sid = os.path.basename(d)
    res = {}
    if os.path.exists(os.path.join(d, 'result.json')):
        try:
            res = json.load(open(os.path.join(d, 'result.json')))
        except Exception as e:
            res = {'error': str(e)}
    what, needs = NEEDS.get(sid, ('', ''))
    caught = (res.get('caught_by') or '').split()
    meta = {'id': sid, 'breaks_property': sid[:3], 'change': what, 'needs_to_manifest': needs,
            'produced_by': 'fresh sub-agent given only the text of the property and a scratch worktree of /repo',
            'confirmed_by': 'tools/seeded_matrix.sh in a scratch worktree of /repo HEAD %s: demo.py on the clean tree exit %s, with patch.diff applied exit %s; pinned suite with the patch: %s'
                            % (res.get('repo_head'), res.get('demo_clean_exit'), res.get('demo_patched_exit'), (res.get('suite_with_patch') or '').strip()),
            'checks_run': 'all 20 quick checks with EAO_REPO pointing at the patched worktree',
            'caught_by': caught, 'caught_by_own_property_check': sid[:3] in caught}
    json.dump(meta, open(os.path.join(d, 'meta.json'), 'w'), indent=1)
    rows.append((sid, what, needs, caught, res))
with open(os.path.join(HERE, 'seeded', 'MATRIX.md'), 'w') as f:
    f.write('# Seeded changes vs. checks (quick tier, generated by tools/seeded_meta.py from seeded/*/result.json)\n\n')
    f.write('Every change still passes the 100 pinned tests; `demo.py` passes on the clean tree and fails with the patch.\n\n')
    f.write('| id | change | needs | demo clean/patched | suite with patch | caught by |\n|---|---|---|---|---|---|\n')
    for sid, what, needs, caught, res in rows:
        f.write('| %s | %s | %s | %s/%s | %s | %s |\n' % (sid, what, needs, res.get('demo_clean_exit'), res.get('demo_patched_exit'),
                                                      (res.get('suite_with_patch') or '').split(',')[0], ' '.join(caught) or '**none**'))
    own = sum(1 for r in rows if r[0][:3] in r[3]); anyc = sum(1 for r in rows if r[3])
    f.write('\n%d changes; caught by the check of their own property: %d; caught by at least one check: %d.\n' % (len(rows), own, anyc))
print('wrote meta for', len(rows))
