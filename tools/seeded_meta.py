#!/venv/bin/python
"""Write seeded/<id>/meta.json (from the hand-written table below + result.json) and seeded/MATRIX.md."""
import os, json, glob

HERE = os.path.dirname(os.path.dirname(os.path.abspath(__file__)))
NEEDS = {
 'C01_a': ('create_nodal_restr stops scanning a node\'s time steps after the first step without dispatch variables (assumes contiguous activity)',
           'a node where ALL attached assets are windowed, leaving a gap mid-horizon with activity again afterwards'),
 'C01_b': ('split set-up shifts the interval mapping by mappings[-1].index.max()+1 instead of the number of variables',
           'split optimisation + an OrderBook as LAST asset whose trailing orders have no step in a non-final interval (unmapped trailing variables)'),
 'C02_a': ('storage inflow vector built without the dt conversion (rate used as per-step volume)', 'Storage with inflow != 0 on a grid whose step is not one main time unit'),
 'C02_b': ('take proration sums dt over mapping rows instead of unique steps', 'Contract with min/max take AND extra_costs AND capacities of both signs (two variables per step)'),
 'C03_a': ('optimize works on the problem\'s own mapping: make_soft_problem=True overwrites the bool column for good', 'a relaxed optimize call followed by a normal call on the same MIP OptimProblem'),
 'C03_b': ('status test uses cvxpy SOLUTION_PRESENT: optimal_inaccurate is returned as success', 'a problem on which the solver ends optimal_inaccurate (badly scaled data)'),
 'C04_a': ('split set-up advances the result offset by mapping_tmp.index.nunique() instead of the cost-vector length', 'split optimisation + an OrderBook with an order that has no step in some non-final interval'),
 'C04_b': ('Asset.dcf only counts mapping rows of type d / i', 'ScaledAsset with fix_costs != 0 and an optimal scale > 0 (scale variable has type "size")'),
 'C05_a': ('storage inflow taken as inflow * restricted.Dt (cumulative time since the PORTFOLIO grid start)', 'Storage with inflow != 0 whose window / interval grid / coarse grid does not start at the grid origin'),
 'C05_b': ('no_simult_in_out "in" rows use the discharge capacity in the binary coefficient', 'no_simult_in_out with separate in/out variables, cap_in > cap_out and an incentive to do both (negative prices, lossy)'),
 'C06_a': ('min-downtime rows skip i >= t instead of i > t', 'min_downtime > 1, plant declared already running, optimum shuts down in step 0 and wants back early'),
 'C06_b': ('last_dispatch no longer scaled by dt[0] (ramp still is)', 'ramp set, last_dispatch != 0, grid freq != main time unit'),
 'C07_a': ('portfolio offset counted from the number of distinct mapping indices instead of len(l)', 'an OrderBook with an order without in-horizon step that is not the last asset'),
 'C07_b': ('periodic merge relabels only the current group\'s rows (II) instead of all rows of the joined variables (out)', 'periodicity on an asset with several rows per variable (Transport, multi-commodity) and a horizon longer than one period'),
 'C08_a': ('take proration from min(e, restricted.end) - max(s, restricted.start) (asset window, not clipped to the horizon)', 'take period straddling a horizon edge AND an explicit asset start/end beyond that edge'),
 'C08_b': ('coarse restricted grid: dt of a coarse step = (b-a) instead of the sum of the covered fine steps', 'asset with own coarser freq whose window starts before / ends after the horizon so that a coarse step straddles the edge'),
 'C09_a': ('Timegrid gets default discount factors and Asset.set_timegrid skips set_wacc for wacc == 0 (stale factors on the shared grid)', 'portfolio with mixed wacc and a zero-wacc asset ordered after a non-zero one'),
 'C09_b': ('two-node Storage builds its node column as a fixed-width numpy string array (output node name truncated)', 'Storage with two nodes where the output node\'s name is longer than the input node\'s'),
 'C10_a': ('the protective copy in values_to_grid only happens when "end" is missing', 'interval dictionary with explicit end and naive dates used first on a zone-aware grid, then on another zone / naive grid'),
 'C10_b': ('CHPAsset stores the default ramp_freq (main time unit of the first grid) on the asset', 'Plant/CHP with start or shutdown ramps and ramp_freq=None set up on two grids with different main time unit'),
 'C11_a': ('numpy date arrays serialised with astype(int64) (unit-less), loader reads nanoseconds', 'numpy datetime64 array in a unit other than ns as start/end of an interval dictionary'),
 'C11_b': ('loaded Timegrid is constructed without main_time_unit', 'portfolio saved with its own grid whose main_time_unit != "h"'),
 'C12_a': ('include_start_variables tests self.min_runtime (main units) instead of the converted step count', 'Plant/CHP on a grid finer than the main unit, min_runtime <= 1 main unit but > 1 step, no start costs / ramps / start fuel'),
 'C12_b': ('coarse weights 1/len(I) instead of dt_minor/dt_major (same change as C13_a)', 'own coarser freq over fine steps of unequal length (daily grid over a DST switch)'),
 'C13_a': ('coarse weights 1/len(I) instead of dt_minor/dt_major', 'own coarser freq over fine steps of unequal length (daily CET grid, weekly asset over a DST week)'),
 'C13_b': ('spare leading duration boundary kept when durations[1] == tp[0] (< instead of <=)', 'periodicity_duration set and the grid start exactly on a duration boundary'),
 'C14_a': ('the closing interval end is appended only if the last interval point < last TIME POINT (should be < end)', 'horizon = k full intervals + exactly one left-over step'),
 'C14_b': ('original step labels computed as time_step + i*T_interval (assumes equal interval lengths)', 'split with intervals of unequal length (unaligned horizon, DST days, months)'),
 'C15_a': ('date window compared on zone-stripped local clock time', 'zone-aware grid and a date given in another zone, or a window ending in the repeated hour of the autumn switch'),
 'C15_b': ('window variables chosen from the FIRST mapping row per variable only', 'variable with rows at different steps (coarse freq, periodicity) and a window (mask/index) that misses its first step'),
 'C16_a': ('ScaledAsset: l = op.l without copy (aliased, overwritten before building the lower scaling rows)', 'base with negative or positive lower bound and max_scale/norm_scale != 1'),
 'C16_b': ('fix costs multiplied with the number of steps T instead of dt.sum()', 'fix_costs != 0 on a grid whose step is not one main time unit'),
 'C17_a': ('make_slp repeats per sample only the rows WITHOUT present variables', 'non-empty present stage and a restriction spanning the boundary (storage, take)'),
 'C17_b': ('robust target skips cost samples that are elementwise dominated by another sample', 'elementwise ordered scenario cost vectors and a portfolio that sells (cheap scenario is the worst case)'),
 'C18_a': ('extract_output negates res.duals["N"] in place', 'two extract_output calls on the same result object'),
 'C18_b': ('split: nodal-restriction steps remapped as step + i*T_interval', 'split with intervals of unequal length'),
 'C19_a': ('coarse restricted grid: dt of a coarse step = (b-a) instead of the sum of the covered fine steps (same as C08_b)', 'coarse window not aligned with the reference grid'),
 'C19_b': ('values_to_grid stops at the first interval starting at/after the grid end ("remaining intervals start later")', 'interval list not in time order with a late entry listed before entries inside the grid'),
 'C20_a': ('order dispatch factor multiplied by the discount factor (dt*disc reused)', 'OrderBook with wacc != 0 on a longer horizon'),
 'C01_c': ('optimal_inaccurate folded into the success branch of optimize (round 2; same mechanism as C03_b)', 'a badly scaled problem on which CLARABEL ends optimal_inaccurate with residuals in the nodal equalities'),
 'C01_d': ('nodal restrictions cached on the Portfolio with a key that omits disp_factor (round 2)', 'set up, change a factor-only parameter (transport efficiency, commodity factors) on the asset object, set up again on the same Portfolio'),
 'C02_c': ('take volume divided by the summed dt of the covered steps instead of the full period length (round 2)', 'take period partly outside the horizon with non-zero volume and a binding restriction'),
 'C02_d': ('Timegrid.set_wacc returns early for wacc == 0 when factors exist (stale discount factors on the shared grid; round 2)', 'mixed wacc in one portfolio with a zero-wacc asset after a non-zero one'),
 'C03_c': ('cvxpy branch solves nodal rows with right-hand side 0 instead of b (round 2)', 'an OptimProblem with a non-zero right-hand side in a row of type N (directly constructed / user-set b)'),
 'C05_c': ('Storage.fill_level adds inflow over timegrid.restricted (shared, overwritten by the asset set up last) instead of the storage\'s own steps (round 2)', 'inflow != 0, windowed storage, a later asset in the portfolio with another window'),
 'C06_c': ('last_dispatch converted with convert_to_timegrid_freq (duration -> steps) instead of * dt (round 2)', 'ramp set, last_dispatch != 0, grid step != main time unit'),
 'C07_c': ('make_vector: "if default_value:" instead of "is not None" - default 0 never applied (round 2)', 'a cost parameter with default 0 (start_costs, running_costs, extra_costs ...) given as interval data that does not cover the whole horizon'),
 'C07_d': ('split set-up translates the interval problem\'s OWN mapping (no deepcopy) (round 2)', 'split optimisation with >= 2 non-empty intervals (and a MIP asset for the functional consequence)'),
 'C08_c': ('prorated take value written back into the asset\'s take dictionary (round 2)', 'Contract with a take period only partly covered and at least two set-ups on the same object'),
 'C10_c': ('StructuredAsset restores the wrapped assets\' start/end only if BOTH its own start and end are set (round 2)', 'structured asset with exactly one of start/end, wrapped asset with own window reaching beyond, same objects reused afterwards'),
 'C10_d': ('coarse restricted grid cached on the Timegrid keyed by (start, end, freq): stale discount factors (round 2)', 'two assets with the same own freq and window but different wacc set up on the same grid object'),
 'C11_c': ('zone-aware dates with UTC offset 0 are saved as naive ("if not obj.utcoffset()") (round 2)', 'zone-aware dates in UTC (or another offset-0 zone) inside an object, used with a grid in another zone'),
 'C11_d': ('ScaledAsset JSON drops its own start/end (merged with the OrderBook special case) (round 2)', 'ScaledAsset with its own start/end inside the grid and fix_costs != 0'),
 'C12_c': ('no_simult_in_out "out" rows use the rate cap_out instead of the per-step volume cap_out*dt (round 2)', 'no_simult_in_out with separate in/out variables and steps longer than one main time unit'),
 'C13_c': ('define_restr sets the take coefficient (=) instead of summing the weights of a variable\'s rows (+=) (round 2)', 'own coarser freq combined with min/max take on the same asset'),
 'C14_c': ('split interval points built with union(end) only: the piece before the first anchor is lost for anchored sizes (round 2)', 'anchored interval size (W, MS, ...) and a horizon starting off the anchor'),
 'C14_d': ('split interval grids built without main_time_unit (re-introduces the defect fixed in 210c346) (round 2)', 'split + main time unit != h + wacc / take / durations'),
 'C15_c': ('pinned values clipped to the bounds of the NEW set-up (round 2)', 'bounds that come from the data set (capacity given as price key) and a new data set that tightens them inside the fixed window'),
 'C16_c': ('ScaledAsset box bounds of the dispatch variables drop "/ norm_scale" (round 2)', 'norm_scale < 1 and a scale above max_scale*norm_scale with a binding flow capacity'),
 'C16_d': ('ScaledAsset fix-cost duration from restricted.end - restricted.start (unclipped asset window) (round 2)', 'ScaledAsset window overhanging the horizon or not aligned with the steps'),
 'C17_c': ('make_slp repeats only rows whose future coefficients do not SUM to zero (round 2)', 'a restriction whose future coefficients cancel (node with one feeding asset and an outgoing transport)'),
 'C17_d': ('ScaledAsset: set_timegrid moved below the costs_only shortcut (cost samples use the base asset\'s window) (round 2)', 'ScaledAsset with fix_costs != 0 whose window differs from its base asset\'s, robust optimisation'),
 'C18_c': ('StructuredAsset: result of cType.replace discarded (re-introduces the defect fixed in b24b651) (round 2)', 'LP portfolio with a structured asset that has an internal node; nodal prices read'),
 'C19_c': ('prices_to_grid recognises gridded data only if the index is a RangeIndex (round 2)', 'price DataFrame / Series with integer labels that are not a RangeIndex'),
 'C20_c': ('orders whose start lies before the horizon start are skipped (round 2)', 'an order that starts before the grid start and ends inside it'),
 # ---- round 3 (fresh sub-agents on the repaired tree, told what rounds 1 and 2 had produced)
 'C01_e': ('Portfolio.setup_optim_problem appends nodes without variables to its mutable default skip_nodes list (persists across calls)', 'a set-up in which all assets of a node are outside the grid followed by one where the node is active (split with a node active only in later intervals; rolling use)'),
 'C01_f': ('optimize rounds the booleans flagged in self.mapping after a relaxed (make_soft_problem) solve', 'make_soft_problem=True, a boolean that enters a node balance (full_exec order, fuel consumption if on) and a fractional relaxed optimum'),
 'C02_e': ('holding costs only charged when the storage has its own price (indentation)', 'cost_store != 0 on a one-variable storage (eff_in 1, no in/out costs, one node) without own price'),
 'C02_f': ('discount exponent Dt/24 (assumes main time unit h)', 'main_time_unit other than h and wacc != 0'),
 'C03_d': ('booleans with l == u lose their boolean flag in optimize', 'a MIP in which a boolean is fixed to a fraction (e.g. pinned to a relaxed result)'),
 'C03_e': ('cvxpy SolverError swallowed and reported as "not successful"', 'a feasible MIP solved with an explicit LP-only solver (CLARABEL)'),
 'C04_c': ('Asset.dcf returns zeros when timegrid.restricted.T == 0 (shared grid: the window of the asset set up LAST)', 'the last asset of the portfolio lies wholly outside the horizon'),
 'C04_d': ('split optimize: value of an interval added only if the interval has duals (MIP intervals skipped)', 'split optimisation with an interval that contains binary variables'),
 'C05_d': ('max_store_duration rows use the storage size as big-M instead of the row-specific bound', 'max_store_duration and an incentive to end above the end level (negative prices at the end) or start level / inflow > 0'),
 'C05_e': ('block loop subtracts in place on a view of the cumulative inflow', 'inflow != 0 with block_size and >= 3 blocks'),
 'C06_d': ('include_start_variables tests the raw min_runtime (main units) instead of steps (same mechanism as C12_a)', 'grid finer than the main unit, 0 < min_runtime <= 1 unit, no start costs / fuel / ramps'),
 'C06_e': ('consumption_if_on scaled with dt[0] only', 'fuel node, consumption_if_on != 0, daily steps over a DST switch'),
 'C07_e': ('cost block of the shutdown variables sized with the full grid T', 'Plant/CHP with start or shutdown ramp and an own window shorter than the grid'),
 'C07_f': ('periodic merge: the joined-groups memory is reset per node (costs and columns added twice; same change as C13_e)', 'periodic Transport / ExtendedTransport with costs or take on a grid longer than one period'),
 'C08_d': ('order window start taken as the grid step the start falls into (tp[-1] wrap-around for starts before the grid)', 'an order starting before the horizon or lying wholly after it'),
 'C08_e': ('StructuredAsset clips the wrapped assets with a.end = max(a.end, self.end) (same as C16_f; rebased onto the window fix e504c0e)', 'structured asset with own end around an asset with a different own end'),
 'C09_c': ('StructuredAsset clips each wrapped asset with the running intersection of all previous ones (rebased onto e504c0e)', 'structured asset with own window, >= 2 wrapped assets with different windows, inner list permuted'),
 'C09_d': ('coarse mapping extension runs pd.to_numeric over every mapping column (names that look like numbers become numbers)', 'asset with own coarser freq and a numeric-looking asset or node name'),
 'C10_e': ('ExtendedTransport negates the take values in place on the caller\'s numpy array', 'min_take / max_take values given as a float numpy array and two set-ups'),
 'C10_f': ('Asset.set_timegrid drops the asset\'s own freq for good when it equals the grid\'s', 'asset with own freq set up on a grid of that frequency, then on a finer grid'),
 'C11_e': ('Timegrid JSON stores the canonical pandas spelling of freq (d -> D)', 'portfolio saved with its own daily grid, Plant/CHP with own freq / ramp_freq equal to the grid\'s (compared as text)'),
 'C11_f': ('prep_date_dict localises naive dates only if they are not already pd.Timestamp (loaded objects hold Timestamps)', 'zone-aware grid, take periods given as naive datetimes, set-up of the loaded object'),
 'C12_d': ('storage holding cost: dt pulled out of the tail sum (equal steps assumed)', 'cost_store != 0 on a grid with unequal steps'),
 'C12_e': ('first-step ramp row uses the raw last_dispatch attribute (rate) next to the converted ramp', 'Plant/CHP without on/off variables, ramp, last_dispatch != 0, dt != 1'),
 'C13_d': ('coarse step length b-a instead of the covered fine steps (same as C08_b / C19_a)', 'coarse asset whose window reaches beyond the horizon off the coarse grid'),
 'C13_e': ('periodic merge: joined-groups memory reset per node (same as C07_f)', 'periodic Transport with costs / take'),
 'C14_e': ('cumulative storage inflow from restricted.Dt (time since the horizon start; same as C05_a)', 'Storage with inflow and a split with >= 2 intervals'),
 'C14_f': ('prorated take written back into the shared take definition (rescaled per interval)', 'take OBLIGATION (min_take > 0) over a period spanning several split intervals'),
 'C15_d': ('fix_time_window["I"] normalised in place with np.flatnonzero (not idempotent)', 'integer index window, or the same dictionary reused'),
 'C15_e': ('only dispatch variables (type d) are pinned', 'asset with non-dispatch variables in the window (scale variable, binaries)'),
 'C16_e': ('fix costs of the scaled asset discounted', 'ScaledAsset with wacc != 0 and fix_costs != 0'),
 'C16_f': ('same as C08_e', 'structured asset with own end around an asset with a different own end'),
 'C17_e': ('make_slp: a variable is future if ANY of its mapping rows is (rebased onto 9408c59)', 'variables with rows on both sides of the stage boundary (orders, coarse assets)'),
 'C17_f': ('fix_time_window pins only d / i variables (same mechanism as C15_e)', 'ScaledAsset (size variable) in the present stage'),
 'C18_d': ('nodal prices divided by the discount factor of the shared grid', 'wacc != 0 on the asset set up last, steps away from the start'),
 'C18_e': ('nodal rows equilibrated (divided by their largest coefficient), duals not scaled back', 'a node whose balance row has a largest coefficient != 1 (efficiency, fuel, commodity factors, coarse weights)'),
 'C19_d': ('dt constant for Tick frequencies (daily steps treated as 24 h)', 'daily grid in a DST zone over a switch'),
 'C19_e': ('coarse restricted grid keeps the incomplete last interval up to the REFERENCE grid end', 'coarse asset with own end before the grid end'),
 'C20_d': ('order windows compared on zone-stripped wall-clock time', 'zone-aware grid and order dates quoted in another zone'),
 'C20_e': ('order cost vector inherits the integer dtype of capa * price (in-place update truncates)', 'integer capa and price with a non-integer discounted duration'),
 # ---- round 4 (fresh sub-agents on the tree with 41 repairs, told what rounds 1-3 had produced)
 'C01_g': ('nodal rows built by assignment (last entry wins) instead of summation', 'an asset that lists the same node twice (self-consumption factor)'),
 'C01_h': ('dispatch output: "factor or 1." turns a commodity factor 0 into 1', 'a dispatch row with factor exactly 0 and a non-zero variable (fuel rows of on/start variables with zero consumption, factor 0 in a multi-commodity contract)'),
 'C02_g': ('two-variable contract: extra costs added after discounting', 'wacc > 0, extra_costs != 0, capacities of both signs'),
 'C02_h': ('reverse transport: cost sign flipped only for max_cap < 0 (not <= 0)', 'Transport with min_cap < 0, max_cap == 0 and costs'),
 'C03_f': ('robust target: reported value computed with the last cost sample', 'optimize(target="robust") with samples that differ from the problem\'s own cost vector'),
 'C03_g': ('"if not any(my_bools)": a lone boolean with variable number 0 is solved as continuous', 'the only boolean of the problem is variable 0'),
 'C04_e': ('Asset.dcf also collects rows whose internal_asset equals the asset\'s name', 'an outer asset named like an asset wrapped in a structured asset'),
 'C04_f': ('robust value correction only for the lower-case spelling of the target', 'optimize(target="Robust" / "ROBUST")'),
 'C05_f': ('no_simult_in_out ignored for a loss-free two-node storage', 'no_simult_in_out, two nodes, eff_in 1, no in/out costs, price difference between the nodes'),
 'C05_g': ('reported charge / discharge netted per time step', 'a step with simultaneous charge and discharge'),
 'C06_f': ('down-ramp rows relaxed with shutdown_idx + t - i (only the final drop exempt)', 'ramp + shutdown profile of >= 2 steps whose consecutive values differ by more than the ramp'),
 'C06_g': ('max_share_heat converted with the step length', 'CHP with max_share_heat on a grid whose step is not one main unit'),
 'C07_g': ('plant booleans mapped to steps 0..T_r-1 instead of the plant\'s own steps', 'Plant / CHP with on-variables and an own start after the grid start'),
 'C07_h': ('minor-grid extension drops the mapping rows of non-dispatch variables', 'Storage with own coarser freq AND appended booleans (no_simult_in_out / max_store_duration)'),
 'C08_f': ('define_restr: "break" at the first take period after the horizon (assumes sorted periods)', 'several take periods, an after-horizon period listed before an in-horizon one'),
 'C08_g': ('coarse restricted grid closes the incomplete last interval at the REFERENCE grid end (same as C19_e)', 'coarse asset with own end inside the horizon, off the coarse grid'),
 'C09_e': ('LinkedAsset looks its variables up by name prefix', 'linked assets whose names are prefixes of each other'),
 'C09_f': ('StructuredAsset renames internal nodes by substring (str.replace)', 'internal node name contained in an external node name'),
 'C10_g': ('prep_date_dict localises the caller\'s take date lists in place', 'take dates as lists of naive dates, first a zone-aware grid, then another zone / a naive grid'),
 'C10_h': ('OrderBook drops orders outside the current grid from self.orders for good', 'an order outside the grid of one set-up and inside the grid of a later one'),
 'C11_g': ('Timegrid JSON strips the zone from start / end (the zone is stored only if given as timezone=)', 'Timegrid built from zone-aware dates without the timezone argument'),
 'C11_h': ('asset JSON drops attributes with a leading underscore (_no_heat)', 'CHPAsset used with _no_heat=True and nodes [power, fuel]'),
 'C12_f': ('_convert_ramp: profile length computed with the main unit instead of ramp_freq', 'ramp profile with explicit ramp_freq coarser than the grid and main unit != ramp_freq'),
 'C12_g': ('storage inflow from restricted.Dt (same as C05_a / C14_e)', 'inflow with a late start / split / coarse freq'),
 'C13_f': ('coarse price averaging with np.add.reduceat (last coarse step runs to the end of the price array)', 'coarse contract with price and an own end before the grid end'),
 'C13_g': ('periodicity only imposed for type(self) == Contract (children lose it)', 'periodic MultiCommodityContract'),
 'C14_g': ('split offset from mapping_tmp.index.max()+1 (same family as C01_b / C04_a)', 'order book last with trailing orders without step in a non-final interval'),
 'C14_h': ('split set-up prefers the grid left on the portfolio over the one passed', 'set-up on grid A, then split set-up on grid B with the same portfolio object'),
 'C15_f': ('window treated as the contiguous range min..max of its steps', 'index / mask window with a gap and new prices'),
 'C15_g': ('split: window only passed to intervals lying completely inside it (.all() for .any())', 'split with fix_time_window ending inside an interval'),
 'C16_g': ('scaling rows only for variables with u > 0 / l < 0 (obligations of the base asset vanish)', 'base asset with max_cap < 0 or min_cap > 0'),
 'C17_g': ('make_slp drops repeated cost samples (re-weights the scenarios)', 'scenario set with a repeated scenario'),
 'C17_h': ('robust target adds the problem\'s own cost vector as an extra scenario', 'problem set up with prices that are not in the scenario set'),
 'C18_f': ('optimize solves nodal rows with right-hand side 0 (same as C03_c)', 'non-zero right-hand side in a nodal row (injection by shifting b)'),
 'C18_g': ('vectorised nodal-price extraction: column order by first appearance vs. sorted', 'nodes whose order of appearance differs from the alphabetical order'),
 'C19_f': ('restricted window bounds re-labelled (tz_localize) instead of converted', 'zone-aware grid and window bounds given in another zone'),
 'C19_g': ('values_to_grid stops checking intervals once every grid point has a value', 'an overlapping interval listed after earlier intervals have covered the whole grid'),
 'C20_f': ('order loop breaks at the first order starting after the horizon (assumes sorted orders)', 'unsorted book with an after-horizon order before relevant ones'),
 'C20_g': ('DataFrame input drops duplicate rows', 'orders as a DataFrame with two identical rows'),
 # ---- round 5 (fresh sub-agents on the tree with 46 repairs, told what rounds 1-4 had produced)
 'C01_i': ('dispatch output sums every mapping row that is not internal (type != i): the scale variable of a ScaledAsset leaks into its dispatch', 'ScaledAsset with non-zero optimal scale'),
 'C01_j': ('"nothing to optimise" shortcut: if all l == u the point is returned without looking at the rows', 'a problem / split interval in which only must-run assets are active and do not balance'),
 'C02_i': ('one-variable form chosen if ANY step has max_cap <= 0 (spread dropped)', 'spread, capacities of both signs, time-varying max_cap that is zero in some steps'),
 'C02_j': ('MultiCommodityContract does not forward wacc to its parent', 'MultiCommodityContract with wacc != 0 and price / extra costs'),
 'C03_h': ('bounds only imposed on variables with two finite bounds', 'a variable with exactly one infinite bound'),
 'C03_i': ('split optimize skips intervals with an empty mapping (should be: no variables)', 'split with an order book and an interval in which no variable is mapped'),
 'C04_g': ('Asset.dcf multiplies with the discount factor a second time', 'wacc != 0 on the asset set up last'),
 'C04_h': ('extract_output divides the DCF table of an SLP by the number of samples', 'make_slp problem read back through extract_output'),
 'C05_h': ('block storage: upper level bound built from the end level', 'block_size with end_level < start_level'),
 'C05_i': ('max_store_duration window length computed once from the first step', 'max_store_duration on steps of unequal length'),
 'C06_h': ('durations rounded to the nearest step instead of up', 'min_runtime / min_downtime not a whole number of steps with fraction < 0.5'),
 'C06_i': ('ramp rows use the raw (unconverted) length of the start profile', 'ramp + start profile whose frequency differs from the grid\'s'),
 'C07_i': ('CHP cost vector built before the fuel options switch on start / on variables', 'start / on variables that exist only because of start_fuel / consumption_if_on'),
 'C07_j': ('"node has dispatch" test hoisted out of the time loop: a nodal row for every step of the grid', 'a node whose assets do not cover all steps'),
 'C08_h': ('storage blocks anchored at the horizon instead of the storage\'s own window', 'windowed storage with block_size, start offset from the horizon start by a non-multiple of the block'),
 'C08_i': ('take-period dates in another zone re-labelled instead of converted', 'zone-aware grid, take dates zone-aware in another zone'),
 'C09_g': ('nodal restrictions looked up by factorised node position (wrong node skipped inside structured assets)', 'structured asset whose wrapped portfolio has a node order different from first appearance in the mapping'),
 'C09_h': ('dispatch extraction by the concatenated key asset+node (no separator)', 'asset p in node pq and asset pq in node p'),
 'C10_i': ('set_wacc skipped when the asset already knows the grid object', 'two assets with different wacc, second set-up on the same grid object'),
 'C10_j': ('asset keeps start / end converted to the first grid\'s zone', 'naive start, first a zone-aware grid, then another zone / naive grid'),
 'C11_i': ('run_from_json ignores the given grid when the saved portfolio has its own', 'portfolio saved with own grid, run_from_json with another grid'),
 'C11_j': ('loaded DatetimeIndex gets an inferred frequency', 'interval data as DatetimeIndex built from >= 3 equidistant dates'),
 'C12_h': ('max_store_duration counted in nominal steps', 'unequal steps (daily over DST) or own coarser freq'),
 'C12_i': ('discount exponent Dt/24 (same as C02_f)', 'main unit != h and wacc != 0'),
 'C13_h': ('coarse intervals re-anchored at the grid start', 'coarse asset with explicit start before the grid start, off phase'),
 'C13_i': ('duration boundaries anchored one PERIOD early (except-branch for multiples like 12h, 2d)', 'periodicity_duration written as a multiple'),
 'C14_i': ('periodic: spare leading duration boundary kept when the grid starts on a boundary (< for <=; same line as C13_b)', 'periodicity_duration = split size'),
 'C14_j': ('coarse loop leaves at the first empty coarse interval (break for continue)', 'coarse asset with explicit start in a split'),
 'C15_h': ('split: date window converted on the grid left on the portfolio', 'split with date window after a set-up on another horizon'),
 'C15_i': ('window given as list coerced to integer step numbers', 'window as a Python list of booleans'),
 'C16_h': ('StructuredAsset does not restore None windows of wrapped assets', 'second set-up after the structured asset\'s window was moved / removed'),
 'C16_i': ('lower scale bound divided by norm_scale', 'norm_scale != 1 and min_scale > 0'),
 'C17_i': ('make_slp: mapping rows of every sample point at the copy for sample 0 (booleans of the other copies relaxed; rebased onto 6489a6a)', 'SLP with integer variables in the future and >= 2 samples'),
 'C17_j': ('Transport cost samples without discount factor', 'transport with costs and wacc != 0 in robust / SLP'),
 'C18_h': ('nodal restrictions labelled with the k-th grid step instead of the node\'s k-th active step', 'a node whose dispatch does not start at step 0'),
 'C18_i': ('reported nodal prices clipped to the range of the given prices', 'true nodal price outside the range of the input series (lossy transport)'),
 'C19_h': ('fast path: window end on the last grid point treated as inclusive', 'restriction window ending exactly at the last time point'),
 'C19_i': ('coarse restricted grid drops the partial first coarse step when the window starts before the grid', 'coarse window starting before the grid, off the coarse raster'),
 'C20_h': ('optimize works on the problem\'s own mapping: relaxed run erases full_exec flags (same as C03_a)', 'relaxed run followed by an ordinary run on the same problem'),
 'C20_i': ('OrderBook costs_only path forgets the discount factors', 'order book with wacc > 0 through create_cost_samples / robust / SLP'),
 # ---- round 6 (fresh sub-agents on the tree with 49 repairs, told what rounds 1-5 had produced)
 'C01_k': ('no nodal restrictions for the steps inside a fix_time_window', 'fixed previous solution that does not balance under changed factors'),
 'C01_l': ('dispatch output column not reset (accumulates) when an asset lists a node twice', 'asset attached to the same node through two entries of its node list'),
 'C02_k': ('storage holding costs: suffix sum over the strictly later steps only', 'cost_store != 0 with end != start level / unequal steps / wacc'),
 'C02_l': ('storage size restriction built from the end level (no blocks)', 'start_level != end_level with binding size'),
 'C03_j': ('rows without entries left out of the solved problem', 'an empty row with a violated right-hand side (LP path)'),
 'C03_k': ('robust target adds the problem\'s own cost vector as a sample (same as C17_h)', 'samples that do not contain op.c'),
 'C04_i': ('make_slp appends mapping rows for all samples but the last', 'SLP read back through extract_output'),
 'C04_j': ('robust value from the last cost sample (same as C03_f)', 'robust target with differing samples'),
 'C05_j': ('sep_needed tests eff_in < 1 (efficiency above one dropped from the level balance)', 'eff_in > 1, no in/out costs, one node'),
 'C05_k': ('max-hold windows start at step 1 (window from the first step missing)', 'max_store_duration, incentive to charge in step 0 and hold'),
 'C06_j': ('down-ramp row: wrong sign of the heat term', 'CHP with heat, ramp, heat produced before a fast reduction'),
 'C06_k': ('fuel for heat: 1/(factor*eff) instead of factor/eff', 'three-node CHP, conversion factor != 1, heat > 0'),
 'C07_k': ('isinstance(self, Transport): periodic merge applied twice for ExtendedTransport', 'periodic ExtendedTransport'),
 'C07_l': ('optimize works on the problem\'s own mapping (relaxed run wipes the boolean flags; same as C03_a / C20_h)', 'relaxed optimize on a MIP problem, mapping read afterwards'),
 'C08_j': ('plant booleans mapped to steps 0..n-1 (same as C07_g)', 'windowed plant with fuel consumption if on'),
 'C08_k': ('OrderBook drops the variables of orders outside the grid, mapping keeps the order numbers', 'outside order listed before inside orders of the same book'),
 'C09_i': ('dispatch extraction keeps asset and node row selections in one dictionary', 'an asset named like a node'),
 'C09_j': ('boolean variables taken by row position of the de-duplicated mapping', 'order book with an unmapped order before an asset with booleans'),
 'C10_k': ('StructuredAsset takes the previously set grid from the wrapped portfolio', 'structured asset set up WITHOUT grid argument after set_timegrid'),
 'C10_l': ('create_cost_samples re-uses the cost vector of assets without price', 'asset with price None and costs taken from the data by name, >= 2 samples'),
 'C11_k': ('set-up attributes only stripped for type(obj) == CHPAsset', 'Plant / min-load CHP saved after use'),
 'C11_l': ('run_from_json drops the JSON string argument', 'run_from_json(json_str=...)'),
 'C12_j': ('coarse step length b-a (same as C08_b / C13_d / C19_a)', 'coarse window overhanging the horizon'),
 'C12_k': ('convert_time_unit by float quotient (5/24 d -> 5.000000000000001 h -> 6 steps)', 'durations of 5, 7, 10 ... steps re-expressed in a coarser main unit'),
 'C13_j': ('coarse Transport scales capacities with the fine step length', 'Transport with own coarser freq and binding capacity'),
 'C13_k': ('Contract builds periods / durations on the restricted grid', 'periodic Contract with own start and a periodicity_duration'),
 'C14_k': ('restricted grids keep only steps that END inside the window', 'split size that is not a multiple of the grid step'),
 'C14_l': ('split: date window excludes the step that starts at the date (< for <=)', 'split with fix_time_window date on a grid point'),
 'C15_j': ('"empty window" shortcut tests np.any(I): the step-number window [0] counts as empty', 'window given as the step number 0 only'),
 'C15_k': ('pinned values of "boolean" variables rounded: NaN flags of plain assets count as True', 'fix_time_window in a portfolio mixing MIP and plain assets'),
 'C16_j': ('restriction right-hand sides scaled with s/max_scale instead of s/norm_scale', 'base asset with b != 0 and max_scale != norm_scale'),
 'C17_k': ('make_slp returns the unchanged problem when there is no PRESENT step', 'stage boundary at the first grid point'),
 'C17_l': ('robust target: each cost sample normalised by its own maximum', 'samples of different magnitude'),
 'C18_j': ('nodal price divided by the step length', 'steps that are not one main time unit long'),
 'C18_k': ('nodal price reported as the absolute value of the dual', 'negative marginal values'),
 'C19_j': ('overlap check only remembers the previously written interval', '>= 3 intervals, the overlapping ones not neighbours in the list'),
 'C19_k': ('grid points chosen by "< end" while step lengths come from the full raster', 'grid end off the raster'),
 'C20_j': ('step coverage uses the nominal step end', 'order ending inside a step / on the 23-hour day'),
 'C20_k': ('orders with cost entry 0 skipped as "outside the grid"', 'order with price exactly 0'),
 'C20_b': ('OrderBook skips set_timegrid when it already holds this grid object (reads another asset\'s restricted grid / wacc)', 'portfolio set up twice on the same Timegrid object with a windowed / other-wacc asset handled just before the book'),
}
def from_notes(d):
    """(change, needs) taken from the sub-agent's notes.md: the title line and the section on what the change needs in order to manifest."""
    import re
    try:
        txt = open(os.path.join(d, 'notes.md')).read()
    except Exception:
        return '', ''
    lines = txt.splitlines()
    title = next((l for l in lines if l.startswith('#')), '').lstrip('# ').strip()
    title = re.sub(r'^(C\d\d\s*[/-]?\s*)?(seeded\s+)?[Cc]hange\s*\(?[ab]\)?\s*[:-]\s*', '', title)
    title = re.sub(r'^C\d\d\s*(seeded change|demo)?\s*\(?[ab]?\)?\s*[:/-]\s*', '', title).strip()
    needs = ''
    for i, l in enumerate(lines):
        if l.startswith('#') and ('need' in l.lower() or 'manifest' in l.lower()):
            body = []
            for m in lines[i + 1:]:
                if m.startswith('#'):
                    break
                body.append(m.strip())
            needs = re.sub(r'\s+', ' ', ' '.join(body)).strip()
            break
    if not needs:
        m_ = re.search(r'\*\*[^*]*(needs|manifest)[^*]*\*\*(.*?)(\n\s*\n|\Z)', txt, re.S | re.I)
        if m_:
            needs = re.sub(r'\s+', ' ', m_.group(2)).strip(' .:')
    return title.replace('|', '/'), (needs[:420] + (' ...' if len(needs) > 420 else '')).replace('|', '/')


rows = []
for d in sorted(glob.glob(os.path.join(HERE, 'seeded', 'C??_?'))):
    sid = os.path.basename(d)
    res = {}
    if os.path.exists(os.path.join(d, 'result.json')):
        try:
            res = json.load(open(os.path.join(d, 'result.json')))
        except Exception as e:
            res = {'error': str(e)}
    what, needs = NEEDS.get(sid) or from_notes(d)
    caught = (res.get('caught_by') or '').split()
    meta = {'id': sid, 'breaks_property': sid[:3], 'change': what, 'needs_to_manifest': needs,
            'produced_by': 'fresh sub-agent given only the text of the property and a scratch worktree of /repo',
            'confirmed_by': 'tools/seeded_matrix.sh in a scratch worktree of /repo HEAD %s: demo.py on the clean tree exit %s, with patch.diff applied exit %s; pinned suite with the patch: %s'
                            % (res.get('repo_head'), res.get('demo_clean_exit'), res.get('demo_patched_exit'), (res.get('suite_with_patch') or '').strip()),
            'checks_run': 'quick checks %s with EAO_REPO pointing at the patched worktree' % ' '.join(sorted((res.get('checks') or {}).keys())),
            'caught_by': caught, 'caught_by_own_property_check': sid[:3] in caught}
    json.dump(meta, open(os.path.join(d, 'meta.json'), 'w'), indent=1)
    rows.append((sid, what, needs, caught, res))
with open(os.path.join(HERE, 'seeded', 'MATRIX.md'), 'w') as f:
    f.write('# Seeded changes vs. checks (quick tier, generated by tools/seeded_meta.py from seeded/*/result.json)\n\n')
    f.write('Every change still passes the 100 pinned tests; `demo.py` passes on the clean tree and fails with the patch.\n\n')
    f.write('| id | change | needs | demo clean/patched | suite with patch | caught by |\n|---|---|---|---|---|---|\n')
    for sid, what, needs, caught, res in rows:
        f.write('| %s | %s | %s | %s/%s | %s | %s |\n' % (sid, what, needs, res.get('demo_clean_exit'), res.get('demo_patched_exit'),
                                                      (res.get('suite_with_patch') or '').split(',')[0], ' '.join(caught) or '**none**'))
    own = sum(1 for r in rows if r[0][:3] in r[3]); anyc = sum(1 for r in rows if r[3])
    f.write('\n%d changes; caught by the check of their own property: %d; caught by at least one check: %d.\n' % (len(rows), own, anyc))
print('wrote meta for', len(rows))
