#!/bin/bash
# usage: tools/seeded_check.sh <dir with patch.diff + demo.py> [--suite] <Cxx> [<Cyy> ...]
# Confirms a seeded change in a scratch worktree of /repo HEAD (demo passes clean / fails patched, optionally the pinned
# suite still passes) and runs the given quick checks against the patched tree via EAO_REPO. Removes the worktree afterwards.
S=$(realpath "$1"); shift
SUITE=0; if [ "$1" == "--suite" ]; then SUITE=1; shift; fi
W=$(mktemp -d /tmp/sw_XXXXXX)
git -C /repo worktree add -q --detach "$W" HEAD || exit 9
cd "$W"
PYTHONPATH="$W" timeout 600 /venv/bin/python "$S/demo.py" > "$W/.demo_clean.txt" 2>&1; c=$?
if ! git apply "$S/patch.diff" 2> "$W/.apply.txt"; then echo "RESULT $S: patch does not apply: $(head -2 $W/.apply.txt)"; cd /; git -C /repo worktree remove --force "$W"; exit 8; fi
PYTHONPATH="$W" timeout 600 /venv/bin/python "$S/demo.py" > "$W/.demo_patched.txt" 2>&1; p=$?
echo "RESULT $S: demo clean exit=$c patched exit=$p ($(tail -1 $W/.demo_patched.txt | cut -c1-150))"
if [ $SUITE == 1 ]; then echo "  suite with patch: $(/verif/tools/run_suite.sh $W | tr '\n' ' ')"; fi
cd /verif
for P in "$@"; do
  out=$(EAO_REPO="$W" EAO_NO_EVIDENCE=1 ./check $P quick 2>&1); rc=$?
  echo "  check $P quick on patched tree: exit=$rc :: $(echo "$out" | grep -E 'witness' | head -1 | cut -c1-260)"
done
git -C /repo worktree remove --force "$W"
