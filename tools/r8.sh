#!/bin/bash
# usage: tools/r8.sh <round> <Cxx>  - import the sub-agent's two changes for a property and run the property's own quick check against each
cd /verif
tools/seeded_import_round.py $1 $2 2>&1 | grep -v conda
for x in $(python3 -c "import json; print(' '.join(sorted(k for k,v in json.load(open('/verif/tools/round$1.json')).items() if v[0]=='$2')))"); do
  tools/seeded_check.sh seeded/$x $2 2>&1 | grep -v conda | cut -c1-450
done
