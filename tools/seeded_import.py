#!/venv/bin/python
"""Copy the sub-agents' seeded changes into /verif/seeded/<id>/ (patch.diff, demo.py, notes.md) and create meta.json skeletons."""
import os, shutil, json, subprocess, sys
for i in ([] if os.environ.get("ROUND2_ONLY") else range(1, 21)):
    pid = 'C%02d' % i
    for v in ('a', 'b'):
        src = '/tmp/seed_%s/seeded_out/%s' % (pid, v)
        if not os.path.exists(src + '/patch.diff'):
            print('missing', src); continue
        dst = '/verif/seeded/%s_%s' % (pid, v)
        os.makedirs(dst, exist_ok=True)
        for f in ('patch.diff', 'demo.py', 'notes.md'):
            if os.path.exists(os.path.join(src, f)):
                shutil.copy(os.path.join(src, f), os.path.join(dst, f))
        # demos must not depend on the sub-agent's scratch path
        d = open(os.path.join(dst, 'demo.py')).read()
        if '/tmp/seed_' in d:
            print('NOTE demo mentions scratch path:', dst)
        rc = subprocess.run(['git', '-C', '/repo', 'apply', '--check', os.path.join(dst, 'patch.diff')], capture_output=True, text=True)
        print(dst, 'applies' if rc.returncode == 0 else 'DOES NOT APPLY: ' + rc.stderr.strip()[:100])

# ---- round 2 (fresh sub-agents, same brief): only changes that are not duplicates of round 1 are kept
ROUND2 = {'C02_c': ('C02', 'a'), 'C02_d': ('C02', 'b'), 'C03_c': ('C03', 'b'), 'C05_c': ('C05', 'a'), 'C06_c': ('C06', 'b'), 'C08_c': ('C08', 'a'),
          'C10_c': ('C10', 'a'), 'C10_d': ('C10', 'b')}
ROUND2.update(json.load(open('/verif/tools/round2_extra.json')) if os.path.exists('/verif/tools/round2_extra.json') else {})
for sid, (pid, v) in ROUND2.items():
    src = '/tmp/seed2_%s/seeded_out/%s' % (pid, v)
    if not os.path.exists(src + '/patch.diff'):
        print('missing', src); continue
    dst = '/verif/seeded/%s' % sid
    os.makedirs(dst, exist_ok=True)
    for f in ('patch.diff', 'demo.py', 'notes.md'):
        if os.path.exists(os.path.join(src, f)):
            shutil.copy(os.path.join(src, f), os.path.join(dst, f))
    rc = subprocess.run(['git', '-C', '/repo', 'apply', '--check', os.path.join(dst, 'patch.diff')], capture_output=True, text=True)
    print(dst, 'applies' if rc.returncode == 0 else 'DOES NOT APPLY: ' + rc.stderr.strip()[:100])
