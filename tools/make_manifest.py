#!/venv/bin/python
"""Regenerate /verif/MANIFEST.json from the drivers that exist (metadata lives in each driver module)."""
import os, sys, json, importlib
HERE = os.path.dirname(os.path.dirname(os.path.abspath(__file__)))
sys.path.insert(0, HERE)
os.environ.setdefault('EAO_REPO', '/repo')
from eaomon import env
env.use_repo()

props = [json.loads(l) for l in open(os.path.join(HERE, 'properties.jsonl'))]
checks = []
na = []
NA_REASONS = {}
for p in props:
    pid = p['id']
    try:
        d = importlib.import_module('eaomon.drivers.' + pid.lower())
    except ModuleNotFoundError:
        na.append({'property_id': pid, 'reason': NA_REASONS.get(pid, 'runtime-monitoring check designed (DESIGN.md section 2) but not built yet in this round')})
        continue
    checks.append({
        'property_id': pid,
        'quick_cmd': './check %s quick' % pid,
        'thorough_cmd': './check %s thorough' % pid,
        'evidence_file': 'evidence/%s.json' % pid,
        'replay_cmd_template': './check %s --replay {path}' % pid,
        'engine': 'eaomon',
        'level_claimed': {'category': 'exploration',
                          'text': getattr(d, 'LEVEL_TEXT', 'Held on the executions observed: ' + d.RULE[:300]),
                          'design_ref': 'DESIGN.md section 2, ' + pid},
        'level_note': getattr(d, 'LEVEL_NOTE', 'Trusted base: the oracle / reference model in eaomon (written from the documentation), scipy-HiGHS as independent solver (pyscipopt-SCIP as second opinion on mixed-integer infeasibility verdicts), pandas/numpy. ' + '; '.join(getattr(d, 'ASSUMPTIONS', []))[:600]),
        'technique': getattr(d, 'TECHNIQUE', 'runtime monitoring: oracle over recorded API-boundary events of the real code under generated workloads'),
    })
m = {
    'version': 1,
    'setup_cmd': '/venv/bin/python -c "import numpy, scipy, pandas, cvxpy; print(\'ok\')" && chmod +x check',
    'hooks': {'guard': 'EAO_VERIF', 'enable': 'no in-source hooks: monitors are attached from the harness at class level (eaomon/attach.py); checks import eaopack from $EAO_REPO (default /repo) working tree',
              'baseline_off_cmd': 'cd /repo && /venv/bin/python -m pytest -ra -q -p no:cacheprovider --timeout=900 --continue-on-collection-errors',
              'source_commits': [], 'add_only': True},
    'engines': [{'name': 'eaomon', 'path': 'eaomon/', 'serves_properties': [c['property_id'] for c in checks],
                 'kind_free_text': 'runtime monitors (invariants at API boundaries, reference-model and relational oracles over recorded executions) driven by seeded workload generators; sharded subprocess runner'}],
    'checks': checks,
    'not_applicable': na,
    'notes': 'Technique family: runtime monitoring. Exit codes: 0 held, 1 VIOLATION, 2 INCONCLUSIVE (sufficiency thresholds not met). Known findings: known_findings.json. Fix commits in /repo are listed there under "fixed".',
}
json.dump(m, open(os.path.join(HERE, 'MANIFEST.json'), 'w'), indent=1)
print('checks:', [c['property_id'] for c in checks], 'not claimed:', [x['property_id'] for x in na])
