#!/bin/bash
# Run the pinned suite on every commit of /repo after base ($1), each in its own scratch worktree (removed afterwards).
BASE=${1:-7c389e3}
OUT=${2:-/tmp/suite_per_commit.txt}
: > $OUT
for c in $(git -C /repo rev-list --reverse $BASE..HEAD); do
  (
    d=$(mktemp -d /tmp/wt_XXXXXX)
    git -C /repo worktree add -q --detach $d $c
    r=$(/verif/tools/run_suite.sh $d | tr '\n' ' ')
    echo "$c $(git -C /repo log -1 --format=%s $c | cut -c1-60) :: $r" >> $OUT
    git -C /repo worktree remove --force $d
  ) &
done
wait
sort $OUT
