#!/bin/bash
# Run the repository's pinned suite (guard off) in directory $1 (default /repo); print the summary line.
# usage: tools/run_suite.sh [repo_dir]
D=${1:-/repo}
cd "$D" && /venv/bin/python -m pytest -ra -q -p no:cacheprovider --timeout=900 --continue-on-collection-errors 2>&1 | grep -E "^(FAILED|ERROR)|passed|failed" | tail -20
