#!/bin/bash
# usage: tools/sweep.sh <tier> <seed...>   - runs every check for the given seeds without touching evidence; prints non-HELD outcomes
TIER=$1; shift
cd "$(dirname "$0")/.."
for s in "$@"; do
  for c in C01 C02 C03 C04 C05 C06 C07 C08 C09 C10 C11 C12 C13 C14 C15 C16 C17 C18 C19 C20; do
    out=$(VERIF_SEED=$s EAO_NO_EVIDENCE=1 ./check $c $TIER 2>&1); rc=$?
    if [ $rc -ne 0 ]; then echo "seed=$s $c exit=$rc"; echo "$out" | grep -E "witness|INCONC|VIOLATION" | head -4 | cut -c1-400; fi
  done
  echo "seed $s done"
done
