#!/venv/bin/python
"""Round N: copy /tmp/seed<N>_<Cxx>/seeded_out/{a,b} into /verif/seeded/<Cxx>_<next free letter>/; mapping kept in tools/round7.json.
usage: tools/seeded_import_round.py <round> C05 [a|b ...]"""
import os, sys, json, shutil, subprocess, glob
HERE = os.path.dirname(os.path.dirname(os.path.abspath(__file__)))
rnd = sys.argv[1]; sys.argv = sys.argv[:1] + sys.argv[2:]
mp = os.path.join(HERE, 'tools', 'round%s.json' % rnd)
M = json.load(open(mp)) if os.path.exists(mp) else {}
pid = sys.argv[1]
variants = sys.argv[2:] or ['a', 'b']
for v in variants:
    src = '/tmp/seed%s_%s/seeded_out/%s' % (rnd, pid, v)
    if not os.path.exists(src + '/patch.diff'):
        print('missing', src); continue
    sid = next((k for k, val in M.items() if val == [pid, v]), None)
    if sid is None:
        used = {os.path.basename(d)[-1] for d in glob.glob(os.path.join(HERE, 'seeded', pid + '_?'))}
        sid = pid + '_' + next(c for c in 'abcdefghijklmnopqrstuvwxyz' if c not in used)
        M[sid] = [pid, v]
    dst = os.path.join(HERE, 'seeded', sid)
    os.makedirs(dst, exist_ok=True)
    for f in ('patch.diff', 'demo.py', 'notes.md'):
        if os.path.exists(os.path.join(src, f)):
            shutil.copy(os.path.join(src, f), os.path.join(dst, f))
    rc = subprocess.run(['git', '-C', '/repo', 'apply', '--check', os.path.join(dst, 'patch.diff')], capture_output=True, text=True)
    print(sid, '<-', src, 'applies' if rc.returncode == 0 else 'DOES NOT APPLY: ' + rc.stderr.strip()[:100])
json.dump(M, open(mp, 'w'), indent=1, sort_keys=True)
