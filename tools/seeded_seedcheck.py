#!/venv/bin/python
"""usage: tools/seeded_seedcheck.py <seed> [parallel]  - every seeded change vs. the quick check of its own property at ANOTHER base seed (no demo / suite run:
those are in result.json). Prints the changes that are not caught at that seed; writes seeded/seedcheck_<seed>.json."""
import os, sys, json, glob, subprocess, tempfile
from concurrent.futures import ThreadPoolExecutor
HERE = os.path.dirname(os.path.dirname(os.path.abspath(__file__)))
seed = sys.argv[1]; par = int(sys.argv[2]) if len(sys.argv) > 2 else 3
def run(d):
    sid = os.path.basename(d); pid = sid[:3]
    W = tempfile.mkdtemp(prefix='sw_', dir='/tmp')
    try:
        subprocess.run(['git', '-C', '/repo', 'worktree', 'add', '-q', '--detach', W, 'HEAD'], check=True, capture_output=True)
        a = subprocess.run(['git', 'apply', os.path.join(d, 'patch.diff')], cwd=W, capture_output=True, text=True)
        if a.returncode != 0:
            return sid, 'patch does not apply'
        env = dict(os.environ, EAO_REPO=W, EAO_NO_EVIDENCE='1', VERIF_SEED=str(seed))
        r = subprocess.run([os.path.join(HERE, 'check'), pid, 'quick', '--shards', '5'], cwd=HERE, env=env, capture_output=True, text=True)
        return sid, r.returncode
    finally:
        subprocess.run(['git', '-C', '/repo', 'worktree', 'remove', '--force', W], capture_output=True)
dirs = sorted(glob.glob(os.path.join(HERE, 'seeded', 'C??_?')))
out = {}
with ThreadPoolExecutor(par) as ex:
    for sid, rc in ex.map(run, dirs):
        out[sid] = rc
        if rc != 1:
            print('NOT CAUGHT at seed %s: %s (exit %s)' % (seed, sid, rc), flush=True)
json.dump(out, open(os.path.join(HERE, 'seeded', 'seedcheck_%s.json' % seed), 'w'), indent=0, sort_keys=True)
print('done: %d changes, %d caught' % (len(out), sum(1 for v in out.values() if v == 1)))
