#!/bin/bash
# usage: tools/seeded_rebase.sh  - re-create seeded/<id>/patch.diff against /repo HEAD where the recorded diff no longer applies cleanly
# (context lines moved by later fix commits). Uses `patch --fuzz` in a scratch worktree; reports what could not be rebased.
cd /verif
W=$(mktemp -d /tmp/sw_XXXXXX)
git -C /repo worktree add -q --detach "$W" HEAD || exit 9
for d in seeded/C??_?; do
  if git -C "$W" apply --check "/verif/$d/patch.diff" 2>/dev/null; then continue; fi
  ( cd "$W" && patch -p1 --fuzz=3 --no-backup-if-mismatch -s < "/verif/$d/patch.diff" > /tmp/rebase_out.txt 2>&1 ); rc=$?
  if [ $rc -eq 0 ] && /venv/bin/python -c "import sys,compileall; sys.exit(0 if compileall.compile_dir('$W/eaopack', quiet=1) else 1)"; then
    cp "/verif/$d/patch.diff" "/verif/$d/patch.orig.diff" 2>/dev/null
    ( cd "$W" && git diff -- eaopack > "/verif/$d/patch.diff" )
    echo "REBASED $d"
  else
    echo "FAILED  $d: $(head -3 /tmp/rebase_out.txt | tr '\n' ' ')"
  fi
  ( cd "$W" && git checkout -q -- . && git clean -fdq )
done
git -C /repo worktree remove --force "$W"
