#!/venv/bin/python
"""usage: tools/mk_prompts.py <round>  - creates scratch worktrees /tmp/seed<round>_<Cxx> of /repo HEAD, each with a TASK.md for a fresh sub-agent:
the text of ONE property, the rules, and one-line descriptions of the changes earlier sub-agents produced for it (so that new ones differ).
Nothing of /verif's checks goes into the task."""
import os, sys, json, glob, subprocess
HERE = os.path.dirname(os.path.dirname(os.path.abspath(__file__)))
rnd = sys.argv[1]
only = sys.argv[2:]
src = open(os.path.join(HERE, 'tools', 'seeded_meta.py')).read().split('rows = []')[0]
exec(src)
props = [json.loads(l) for l in open(os.path.join(HERE, 'properties.jsonl'))]
for p in props:
    pid = p['id']
    if only and pid not in only:
        continue
    W = '/tmp/seed%s_%s' % (rnd, pid)
    if not os.path.exists(W):
        subprocess.run(['git', '-C', '/repo', 'worktree', 'add', '-q', '--detach', W, 'HEAD'], check=True)
    prior = []
    for d in sorted(glob.glob(os.path.join(HERE, 'seeded', pid + '_?'))):
        sid = os.path.basename(d)
        what = (NEEDS.get(sid) or from_notes(d))[0]
        if what:
            prior.append('- ' + what)
    txt = f"""You are working in a scratch git worktree of the open-source Python project EnergyAssetOptimization/EAO (package `eaopack`: builds LP/MIP formulations for energy asset portfolios - storages, contracts, CHP, transport, order books - on a time grid and solves them via cvxpy). Your worktree is {W} . Work ONLY inside {W}; never read or touch /repo or /verif. There is no network. Run Python as `cd {W} && PYTHONPATH={W} /venv/bin/python ...`. The project's test suite is run with `cd {W} && /venv/bin/python -m pytest -q -p no:cacheprovider --timeout=900 tests 2>&1 | tail -5` (100 tests, takes 1-2 minutes; all pass on the unmodified tree). Installed cvxpy solvers: CLARABEL (default LP), SCIP (default MIP), SCIPY/HiGHS. EAO prints a lot; wrap calls in contextlib.redirect_stdout if you like.

The following semantic property is supposed to hold for this code base:

{pid} - {p['title']}

Statement: {p['statement']}

Quantifier (inputs, configurations): {p['quantifier']['text']}

YOUR TASK: produce TWO different, independent, realistic changes to the eaopack source, each of which BREAKS this property while the code still imports and the COMPLETE existing test suite still passes (all 100 tests). "Realistic" = the kind of slip a developer could plausibly make or a plausible well-meant refactoring/optimisation gone wrong: off-by-one, `<` vs `<=`, wrong sign, forgotten factor (dt, efficiency, discount), wrong index/offset, stale cached value, wrong variable reused, condition inverted at an edge, mutation of shared state, etc. Each change must need something SPECIFIC to manifest - an unusual input or parameter combination, a particular grid (DST day, unaligned window, coarse frequency ...), a multi-step sequence of calls on the same objects, or two cooperating sites that each look fine alone - NOT something that ordinary use (and therefore the test suite) would expose at once. Do not write changes that are keyed on a magic name or magic constant value (e.g. `if name == 'xyz'`), and do not edit the tests. The two changes should touch different mechanisms / different aspects of the property. Small diffs (1-10 lines each) are best. Prefer mechanisms that are specific to this property and deep in its code paths (unit conversions, boundary conditions of loops over time steps, initial/final steps, sign conventions, interplay of two optional features, state kept on shared objects between calls) over generic index bookkeeping in the portfolio assembly.

IMPORTANT: never use `git stash` (the stash is shared between the parallel worktrees of this repository); switch between the clean and the changed tree with `git diff -- eaopack > my.patch; git checkout -- eaopack; git apply my.patch`. Other engineers have ALREADY produced the following changes for this property. Do NOT repeat them or close variants of them (same line / same mechanism); find different ones. Also do not simply revert one of the commits whose message starts with 'fix:' in `git log` (those defects are known). Look for aspects of the property's statement that none of the listed changes touches, less-travelled options of the classes involved (read the docstrings of ALL constructor arguments), convenience entry points (eaopack/io.py, serialization.py, stoch_lin_prog.py, network_graphs.py), and sequences of several calls on the same objects:
{chr(10).join(prior)}

At least one of your two changes should need the INTERPLAY OF TWO OPTIONAL FEATURES (e.g. own frequency + lifetime, periodicity + take, wacc + unequal steps, split + fixed window, scaled/structured wrapper + option of the wrapped asset, time zone + dates given in another form) or a SEQUENCE of several calls on the same objects to manifest.

First read the relevant code (eaopack/*.py, about 4800 lines; tests/ shows typical use) to find good candidates. For each change X in (a, b) deliver in {W}/seeded_out/X/ :
  - patch.diff : `git diff -- eaopack` of exactly that change relative to the unmodified worktree (one change only);
  - demo.py    : a small stand-alone program demonstrating the breakage THROUGH THE PUBLIC API (build assets/portfolio/timegrid, set up, optimise, extract output, ... and check what the property says): it must print PASS and exit 0 on the unmodified code and print FAIL (with a short explanation/numbers) and exit 1 with the change applied. It must be runnable as `cd {W} && PYTHONPATH={W} /venv/bin/python seeded_out/X/demo.py` and must not depend on random seeds from the environment;
  - notes.md   : first line `# <one-line description of the change>`; then which aspect of the property is broken and why, a section `## What it needs to manifest`, and the commands you ran with their results (demo on clean tree, demo with change, test-suite summary line with the change applied).
You MUST verify all of this yourself: (1) unmodified tree: demo prints PASS; (2) change applied: demo prints FAIL AND the full test suite still reports 100 passed. If a candidate change makes any existing test fail, discard it and find another. When you are done leave the worktree with NO change applied (`git checkout -- eaopack`), only the untracked seeded_out/ directory (and TASK.md) added. Report briefly what the two changes are.
"""
    open(os.path.join(W, 'TASK.md'), 'w').write(txt)
    print(pid, W, len(prior), 'prior changes,', len(txt), 'chars')
