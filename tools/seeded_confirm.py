#!/venv/bin/python
"""Final confirmation pass: every seeded change vs. the check of its own property + the checks that caught it in an earlier pass
(+ the checks named in tools/round2_targets.json). Writes seeded/<id>/result.json via tools/seeded_matrix.sh; 3 in parallel."""
import os, json, glob, subprocess, sys
from concurrent.futures import ThreadPoolExecutor
HERE = os.path.dirname(os.path.dirname(os.path.abspath(__file__)))
extra = {'C01_c': 'C03 C01', 'C01_d': 'C10 C01', 'C02_c': 'C02 C08', 'C02_d': 'C02 C09', 'C03_c': 'C03', 'C05_c': 'C05', 'C06_c': 'C06 C12', 'C07_c': 'C07', 'C07_d': 'C07 C03 C14',
         'C08_c': 'C08 C10', 'C10_c': 'C10', 'C10_d': 'C10 C09', 'C11_c': 'C11', 'C11_d': 'C11', 'C12_c': 'C12', 'C13_c': 'C13', 'C14_c': 'C14', 'C14_d': 'C14', 'C15_c': 'C15',
         'C16_c': 'C16', 'C16_d': 'C16', 'C17_c': 'C17', 'C17_d': 'C17', 'C18_c': 'C18', 'C19_c': 'C19', 'C20_c': 'C20', 'C12_b': 'C12 C13', 'C13_a': 'C13 C12', 'C11_a': 'C11',
         'C01_a': 'C01 C07', 'C01_b': 'C01', 'C03_a': 'C03', 'C03_b': 'C03'}
jobs = []
for d in sorted(glob.glob(os.path.join(HERE, 'seeded', 'C??_?'))):
    sid = os.path.basename(d)
    checks = {sid[:3]}
    rj = os.path.join(d, 'result.json')
    if os.path.exists(rj):
        try:
            checks |= set((json.load(open(rj)).get('caught_by') or '').split())
        except Exception:
            pass
    checks |= set(extra.get(sid, '').split())
    checks.discard('C19') if sid[:3] not in ('C19',) and sid not in ('C08_b', 'C19_a', 'C08_a') else None     # (first-pass C19 hits were a generator false alarm, since fixed)
    jobs.append((d, sorted(checks)))
def run(job):
    d, checks = job
    out = subprocess.run([os.path.join(HERE, 'tools', 'seeded_matrix.sh'), d] + checks, capture_output=True, text=True)
    return (out.stdout.strip().splitlines() or [''])[-1]
r7 = set(json.load(open(os.path.join(HERE, 'tools', 'round7.json'))))
if '--missing' in sys.argv:
    jobs = [j for j in jobs if not os.path.exists(os.path.join(j[0], 'result.json')) or 'error' in open(os.path.join(j[0], 'result.json')).read()[:20]]
jobs.sort(key=lambda j: (os.path.basename(j[0]) not in r7, j[0]))     # newest round first
with ThreadPoolExecutor(int(os.environ.get('CONFIRM_PAR', '4'))) as ex:
    for line in ex.map(run, jobs):
        print(line, flush=True)
