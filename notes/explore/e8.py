import warnings; warnings.filterwarnings('ignore')
import numpy as np, pandas as pd, datetime as dt, io, contextlib, time
import eaopack as eao
from eaopack.assets import *
from eaopack.portfolio import Portfolio
from scipy.optimize import linprog, milp, LinearConstraint, Bounds
def quiet(f,*a,**k):
    with contextlib.redirect_stdout(io.StringIO()):
        return f(*a,**k)
n1,n2,n3 = Node('a'),Node('b'),Node('c')
for T in (12, 48, 168):
    tg = Timegrid(dt.datetime(2021,1,1), dt.datetime(2021,1,1)+dt.timedelta(hours=T), freq='h')
    pr = {'p': 5+3*np.sin(np.arange(tg.T)), 'q': 5+3*np.cos(np.arange(tg.T))}
    assets = [SimpleContract(name='m1', nodes=n1, price='p', min_cap=-10, max_cap=10, extra_costs=0.1),
              SimpleContract(name='m2', nodes=n2, price='q', min_cap=-10, max_cap=10),
              Transport(name='t', nodes=[n1,n2], min_cap=0, max_cap=3, efficiency=0.95),
              Storage('S', nodes=n2, size=10, cap_in=2, cap_out=1, eff_in=0.9),
              Contract(name='c', nodes=n1, price='q', min_cap=0, max_cap=2, max_take={'start':[tg.start],'end':[tg.end],'values':[T/2]}),
              ]
    P = Portfolio(assets)
    t0=time.time(); op = quiet(P.setup_optim_problem, pr, tg); t1=time.time(); r = quiet(op.optimize); t2=time.time(); out = eao.io.extract_output(P, op, r); t3=time.time()
    # independent solve
    A = op.A.tocsr(); ct = np.array(list(op.cType)); b = op.b
    lo = np.where((ct=='L')|(ct=='S')|(ct=='N'), b, -np.inf); hi = np.where((ct=='U')|(ct=='S')|(ct=='N'), b, np.inf)
    res = milp(op.c, constraints=LinearConstraint(A, lo, hi), bounds=Bounds(op.l, op.u)); t4=time.time()
    print(T, 'nvars', len(op.c), 'setup %.2f opt %.2f extract %.2f highs %.3f'%(t1-t0,t2-t1,t3-t2,t4-t3), 'val', r.value, -res.fun, 'maxviol bounds', max((op.l-r.x).max(), (r.x-op.u).max()))
# MIP
tg = Timegrid(dt.datetime(2021,1,1), dt.datetime(2021,1,2), freq='h')
pl = Plant(name='P', nodes=[n1], min_cap=1., max_cap=10., ramp=3., min_runtime=3, min_downtime=2, start_costs=2., price='p')
m = SimpleContract(name='m1', nodes=n1, price='q', min_cap=-10, max_cap=10)
P = Portfolio([pl,m]); pr = {'p': 5+3*np.sin(np.arange(tg.T)), 'q': 5+3*np.cos(np.arange(tg.T))}
t0=time.time(); op = quiet(P.setup_optim_problem, pr, tg); t1=time.time(); r = quiet(op.optimize); t2=time.time()
print('MIP nvars', len(op.c), 'setup %.2f opt %.2f'%(t1-t0,t2-t1), r.value)
