import warnings; warnings.filterwarnings('ignore')
import numpy as np, pandas as pd, datetime as dt, io, contextlib, copy
import eaopack as eao
from eaopack.assets import *
from eaopack.portfolio import Portfolio, StructuredAsset
from eaopack.stoch_lin_prog import make_slp
def quiet(f,*a,**k):
    with contextlib.redirect_stdout(io.StringIO()):
        return f(*a,**k)
def trycall(label, f):
    try:
        r = f(); print(label, '->', r)
    except Exception as e:
        print(label, 'EXC', type(e).__name__, str(e)[:300])
n1,n2 = Node('a'),Node('b')
tg = Timegrid(dt.date(2021,1,1), dt.date(2021,1,3), freq='h')
print("=== CHP with periodicity")
def f():
    p = Plant(name='P', nodes=[n1], min_cap=1., max_cap=5., price='p', periodicity='d', min_runtime=3)
    op = quiet(p.setup_optim_problem, {'p': np.sin(np.arange(tg.T))}, tg); r = quiet(op.optimize)
    return len(op.c), r if isinstance(r,str) else r.value
trycall('plant periodic', f)
def f():
    p = Plant(name='P', nodes=[n1], min_cap=0., max_cap=5., price='p', periodicity='d')
    op = quiet(p.setup_optim_problem, {'p': np.sin(np.arange(tg.T))}, tg); r = quiet(op.optimize)
    return len(op.c), r if isinstance(r,str) else r.value
trycall('plant periodic simple', f)

print("=== Timestamp.max tz overflow")
for tz in ('CET','America/New_York','Asia/Tokyo'):
    tgz = Timegrid(dt.date(2021,1,1), dt.date(2021,1,3), freq='h', timezone=tz)
    trycall('single start no end '+tz, lambda: np.isnan(tgz.values_to_grid({'start': dt.datetime(2021,1,1), 'values': 2.})).sum())

print("=== SLP with transport; bounds")
tg = Timegrid(dt.date(2021,1,1), dt.date(2021,1,7), freq='d')
a = SimpleContract(name='a', nodes=n1, price='p', min_cap=-1, max_cap=2)
b = SimpleContract(name='b', nodes=n2, price='q', min_cap=-2, max_cap=1, extra_costs=0.1)
t = Transport(name='t', nodes=[n1,n2], min_cap=0, max_cap=1, efficiency=0.9, costs_const=0.01)
s = Storage('s', nodes=n1, size=50, cap_in=1, cap_out=1)
P = Portfolio([a,b,t,s])
rng = np.random.default_rng(1)
base = {'p': rng.normal(5,2,tg.T), 'q': rng.normal(5,2,tg.T)}
def scen():
    d = {k: v.copy() for k,v in base.items()}
    for k in d: d[k][3:] += rng.normal(0,2,tg.T-3)
    return d
samples = [scen() for _ in range(3)]
op = P.setup_optim_problem(base, tg); r = quiet(op.optimize)
def f():
    ops = make_slp(copy.deepcopy(op), P, tg, dt.date(2021,1,4), samples)
    rs = quiet(ops.optimize)
    vals = [quiet(P.setup_optim_problem(sc, tg).optimize).value for sc in [base]+samples]
    return rs.value, np.mean(vals), len(ops.c), len(op.c)
trycall('slp', f)

print("=== robust")
def f():
    cs = P.create_cost_samples([base]+samples, tg)
    rr = quiet(op.optimize, target='robust', samples=cs)
    worst = min(-c@rr.x for c in cs)
    opts = [quiet(P.setup_optim_problem(sc, tg).optimize) for sc in [base]+samples]
    worst_single = [min(-c@o.x for c in cs) for o in opts]
    return rr.value, worst, worst_single, min(o.value for o in opts)
trycall('robust', f)

print("=== prices_to_grid pass-through")
tg = Timegrid(dt.date(2021,3,27), dt.date(2021,3,30), freq='h', timezone='CET')
arr = np.arange(tg.T, dtype=float)
df = tg.prices_to_grid({'p': arr}); print('pass-through', np.array_equal(df['p'].values, arr), type(df).__name__)
print('which MIP solver default?')
import cvxpy as cp
x = cp.Variable(2, boolean=True); prob = cp.Problem(cp.Maximize(x[0]+x[1]), [x[0]+x[1]<=1.5]); prob.solve(); print(prob.solver_stats.solver_name)
x = cp.Variable(2); prob = cp.Problem(cp.Maximize(x[0]+x[1]), [x<=1]); prob.solve(); print(prob.solver_stats.solver_name)
