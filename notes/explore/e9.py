import warnings; warnings.filterwarnings('ignore')
import sys, functools, io, contextlib, time
import numpy as np, datetime as dt
import eaopack as eao
from eaopack.assets import *
from eaopack.portfolio import Portfolio
import eaopack.assets as A, eaopack.portfolio as PF, eaopack.optimization as O, eaopack.basic_classes as B

events = []
depth = {'asset':0}
def wrap_asset(cls):
    if 'setup_optim_problem' not in cls.__dict__: return
    orig = cls.__dict__['setup_optim_problem']
    @functools.wraps(orig)
    def w(self, *a, **k):
        depth['asset'] += 1
        try:
            r = orig(self, *a, **k)
        finally:
            depth['asset'] -= 1
        if depth['asset'] == 0:
            events.append(('asset', type(self).__name__, self.name, None if isinstance(r, np.ndarray) else len(r.c)))
        return r
    setattr(cls, 'setup_optim_problem', w)
def all_subclasses(c):
    out = []
    for s in c.__subclasses__(): out.append(s); out += all_subclasses(s)
    return out
for c in [A.Asset]+all_subclasses(A.Asset): wrap_asset(c)
orig_p = PF.Portfolio.setup_optim_problem
def wp(self,*a,**k):
    d0 = depth['asset']; depth['asset'] = 0   # assets called from portfolio are boundary events again
    try: r = orig_p(self,*a,**k)
    finally: depth['asset'] = d0
    events.append(('portfolio', len(self.assets)))
    return r
PF.Portfolio.setup_optim_problem = wp

n1,n2 = Node('a'),Node('b')
tg = Timegrid(dt.date(2021,1,1), dt.date(2021,1,2), freq='h')
pr = {'p': 5+3*np.sin(np.arange(tg.T))}
chp = CHPAsset(name='CHP', nodes=(n1,n2), min_cap=1., max_cap=5., min_runtime=2, price='p')
m = SimpleContract(name='m', nodes=n1, price='p', min_cap=-10, max_cap=10)
h = SimpleContract(name='h', nodes=n2, min_cap=-10, max_cap=0)
sa = PF.StructuredAsset(name='X', portfolio=Portfolio([chp, h]), nodes=n1)
P = Portfolio([sa, m])
with contextlib.redirect_stdout(io.StringIO()):
    op = P.setup_optim_problem(pr, tg)
for e in events: print(e)

# sys.monitoring line coverage probe
import sys
TOOL = sys.monitoring.COVERAGE_ID
sys.monitoring.use_tool_id(TOOL, 'probe')
hit = set()
def on_line(code, line):
    if 'eaopack' in code.co_filename:
        hit.add((code.co_filename.rsplit('/',1)[-1], line))
    return sys.monitoring.DISABLE
sys.monitoring.register_callback(TOOL, sys.monitoring.events.LINE, on_line)
sys.monitoring.set_events(TOOL, sys.monitoring.events.LINE)
t0=time.time()
with contextlib.redirect_stdout(io.StringIO()):
    op = P.setup_optim_problem(pr, tg); r = op.optimize()
sys.monitoring.set_events(TOOL, 0)
print('lines hit', len(hit), 'time %.2f'%(time.time()-t0), sorted(l for f,l in hit if f=='portfolio.py')[:20])
import coverage; print('coverage', coverage.__version__)
