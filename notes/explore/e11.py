import warnings; warnings.filterwarnings('ignore')
import numpy as np, pandas as pd, datetime as dt, io, contextlib
from eaopack.assets import *
from eaopack.portfolio import Portfolio
def quiet(f,*a,**k):
    with contextlib.redirect_stdout(io.StringIO()):
        return f(*a,**k)
n1 = Node('a')
tg = Timegrid(dt.datetime(2021,1,1), dt.datetime(2021,1,1,12), freq='h'); T=tg.T
pr = {'p': np.array([1,1,1,1,9,9,1,1,1,9,9,9.])}
for kw in (dict(start_level=0,end_level=0,inflow=0.), dict(start_level=2,end_level=2,inflow=0.), dict(start_level=0,end_level=0,inflow=0.2)):
    s = Storage('S', nodes=n1, size=10, cap_in=2, cap_out=2, max_store_duration=2, **kw)
    m = SimpleContract(name='m', nodes=n1, price='p', min_cap=-10, max_cap=10)
    P = Portfolio([s,m]); op = quiet(P.setup_optim_problem, pr, tg); r = quiet(op.optimize)
    if isinstance(r,str): print(kw, r); continue
    x = r.x[:T]; lvl = kw['start_level'] + np.cumsum(-x + kw['inflow']*tg.dt)
    print(kw, 'level', np.round(lvl,2), 'bool', np.round(r.x[T:2*T],0))
