import warnings; warnings.filterwarnings('ignore')
import numpy as np, pandas as pd, datetime as dt, io, contextlib
import eaopack as eao
from eaopack.assets import *
from eaopack.portfolio import Portfolio
def quiet(f,*a,**k):
    with contextlib.redirect_stdout(io.StringIO()):
        return f(*a,**k)
n1 = Node('a')
for tz in (None,'CET'):
    tg = Timegrid(dt.datetime(2021,3,27), dt.datetime(2021,3,30), freq='h', timezone=tz)
    take = {'start':[dt.datetime(2021,3,27)], 'end':[dt.datetime(2021,3,30)], 'values':[30.]}
    c = Contract(name='c', nodes=n1, price='p', min_cap=0, max_cap=2, max_take=take, freq='d')
    m = SimpleContract(name='m', nodes=n1, price='q', min_cap=-100, max_cap=100)
    P = Portfolio([c,m]); pr={'p': np.zeros(tg.T), 'q': np.ones(tg.T)}
    op = quiet(P.setup_optim_problem, pr, tg); r = quiet(op.optimize); out = eao.io.extract_output(P, op, r)
    d = out['dispatch']['c']
    print(tz, 'T', tg.T, 'total c dispatch', round(d.sum(),4), 'per-day', d.groupby(d.index.date).sum().round(3).tolist(), 'rate const per day', d.groupby(d.index.date).apply(lambda s: round(s.max()-s.min(),6)).tolist())
print('--- coarse storage fill level')
tg = Timegrid(dt.datetime(2021,1,1), dt.datetime(2021,1,4), freq='h')
s = Storage('S', nodes=n1, size=30, cap_in=1, cap_out=1, freq='d', start_level=0, end_level=0)
m = SimpleContract(name='m', nodes=n1, price='q', min_cap=-100, max_cap=100)
P = Portfolio([s,m]); pr={'q': np.repeat([1.,5.,3.],24)}
op = quiet(P.setup_optim_problem, pr, tg); r = quiet(op.optimize); out = eao.io.extract_output(P, op, r)
print('S disp per day', out['dispatch']['S'].groupby(out['dispatch'].index.date).sum().tolist())
fl = out['internal_variables']['S_fill_level']; print('fill level at hours 0,12,23,24,47,71:', fl.iloc[[0,12,23,24,47,71]].round(2).tolist())
print('charge col sum', out['internal_variables']['S_charge'].sum(), 'discharge', out['internal_variables']['S_discharge'].sum())
