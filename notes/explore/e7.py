import warnings; warnings.filterwarnings('ignore')
import numpy as np, pandas as pd, datetime as dt, io, contextlib, copy
import eaopack as eao
from eaopack.assets import *
from eaopack.portfolio import Portfolio, StructuredAsset
def quiet(f,*a,**k):
    with contextlib.redirect_stdout(io.StringIO()):
        return f(*a,**k)
def val(P, pr, tg):
    try:
        op = quiet(P.setup_optim_problem, pr, tg); r = quiet(op.optimize); return float('nan') if isinstance(r,str) else round(r.value,5)
    except Exception as e:
        print('   EXC', type(e).__name__, str(e)[:100]); return float('nan')
n1,n2 = Node('a'),Node('b')
tg = Timegrid(dt.date(2021,1,1), dt.date(2021,1,2), freq='h')
pr = {'p': 5+3*np.sin(np.arange(tg.T))}
m = SimpleContract(name='m', nodes=n1, price='p', min_cap=-100, max_cap=100)
s_, S_, fc = 1.5, 2.0, 0.3
print('--- storage LP')
base = Storage('S', nodes=n1, size=10, cap_in=2, cap_out=1, eff_in=0.9, start_level=2, end_level=2, inflow=0.1, cost_in=0.1)
eq   = Storage('S', nodes=n1, size=10*s_/S_, cap_in=2*s_/S_, cap_out=1*s_/S_, eff_in=0.9, start_level=2*s_/S_, end_level=2*s_/S_, inflow=0.1*s_/S_, cost_in=0.1)
sc = ScaledAsset(name='sc', base_asset=base, min_scale=s_, max_scale=s_, norm_scale=S_, fix_costs=fc)
print('scaled', val(Portfolio([m,sc]),pr,tg), 'equiv - fix', val(Portfolio([m,eq]),pr,tg) - s_*fc*tg.dt.sum())
print('--- storage no_simult (MIP)')
base = Storage('S', nodes=n1, size=10, cap_in=2, cap_out=1, eff_in=0.9, no_simult_in_out=True)
eq   = Storage('S', nodes=n1, size=10*s_/S_, cap_in=2*s_/S_, cap_out=1*s_/S_, eff_in=0.9, no_simult_in_out=True)
sc = ScaledAsset(name='sc', base_asset=base, min_scale=s_, max_scale=s_, norm_scale=S_, fix_costs=fc)
print('scaled', val(Portfolio([m,sc]),pr,tg), 'equiv - fix', val(Portfolio([m,eq]),pr,tg) - s_*fc*tg.dt.sum())
print('--- plant with min_cap')
base = Plant(name='P', nodes=[n1], min_cap=1., max_cap=4., extra_costs=5.)
eq   = Plant(name='P', nodes=[n1], min_cap=1.*s_/S_, max_cap=4.*s_/S_, extra_costs=5.)
sc = ScaledAsset(name='sc', base_asset=base, min_scale=s_, max_scale=s_, norm_scale=S_, fix_costs=fc)
print('scaled', val(Portfolio([m,sc]),pr,tg), 'equiv - fix', val(Portfolio([m,eq]),pr,tg) - s_*fc*tg.dt.sum())
print('--- contract with spread and take, window')
take = {'start':[dt.datetime(2021,1,1,2)], 'end':[dt.datetime(2021,1,1,20)], 'values':[6.]}
def C(f): return Contract(name='C', nodes=n1, price='p', min_cap=-1*f, max_cap=2*f, extra_costs=0.2, max_take={'start':take['start'],'end':take['end'],'values':[6.*f]}, start=dt.datetime(2021,1,1,1), end=dt.datetime(2021,1,1,22))
m2 = SimpleContract(name='m', nodes=n1, price='p', min_cap=-100, max_cap=100, extra_costs=1.)
pr2 = {'p': 5+3*np.sin(np.arange(tg.T)), 'q': 5+3*np.cos(np.arange(tg.T))}
def CC(f): return Contract(name='C', nodes=n1, price='q', min_cap=-1*f, max_cap=2*f, extra_costs=0.2, max_take={'start':take['start'],'end':take['end'],'values':[6.*f]}, start=dt.datetime(2021,1,1,1), end=dt.datetime(2021,1,1,22))
sc = ScaledAsset(name='sc', base_asset=CC(1.), min_scale=s_, max_scale=s_, norm_scale=S_, fix_costs=fc, start=dt.datetime(2021,1,1,1), end=dt.datetime(2021,1,1,22))
print('scaled', val(Portfolio([m2,sc]),pr2,tg), 'equiv - fix', val(Portfolio([m2,CC(s_/S_)]),pr2,tg) - s_*fc*21)
sc = ScaledAsset(name='sc', base_asset=CC(1.), min_scale=s_, max_scale=s_, norm_scale=S_, fix_costs=fc)
print('scaled (no window on wrapper)', val(Portfolio([m2,sc]),pr2,tg), 'equiv - fix(24h)', val(Portfolio([m2,CC(s_/S_)]),pr2,tg) - s_*fc*24)
print('--- structured vs flat')
st = Storage('S', nodes=n2, size=10, cap_in=2, cap_out=1, eff_in=0.9)
t = Transport(name='t', nodes=[n1,n2], min_cap=0, max_cap=3, efficiency=0.95)
t2 = Transport(name='t2', nodes=[n2,n1], min_cap=0, max_cap=3, efficiency=0.95)
flat = Portfolio([st,t,t2,m])
sa = StructuredAsset(name='X', portfolio=Portfolio([st,t,t2]), nodes=n1)
print('flat', val(flat,pr,tg), 'struct', val(Portfolio([sa,m]),pr,tg))
