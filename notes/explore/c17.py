import warnings; warnings.filterwarnings('ignore')
import numpy as np, pandas as pd, datetime as dt, io, contextlib, copy
from scipy.optimize import milp, LinearConstraint, Bounds
from eaopack.assets import *
from eaopack.portfolio import Portfolio
from eaopack.stoch_lin_prog import make_slp
def quiet(f,*a,**k):
    with contextlib.redirect_stdout(io.StringIO()):
        return f(*a,**k)
def highs(c,l,u,A,b,ct):
    A = A.tocsr(); ct = np.array(list(ct))
    lo = np.where((ct=='L')|(ct=='S')|(ct=='N'), b, -np.inf); hi = np.where((ct=='U')|(ct=='S')|(ct=='N'), b, np.inf)
    r = milp(c, constraints=LinearConstraint(A, lo, hi), bounds=Bounds(l,u)); return (-r.fun, r.x) if r.status==0 else (None,None)
def resid(x,l,u,A,b,ct):
    A=A.tocsr(); ct=np.array(list(ct)); ax=A@x
    v = max((l-x).max(), (x-u).max())
    v = max(v, (ax-b)[(ct=='U')].max(initial=-1), (b-ax)[(ct=='L')].max(initial=-1), np.abs(ax-b)[(ct=='S')|(ct=='N')].max(initial=0))
    return v
n1,n2 = Node('a'),Node('b')
tg = Timegrid(dt.date(2021,1,1), dt.date(2021,1,9), freq='d')
a = SimpleContract(name='a', nodes=n1, price='p', min_cap=-1, max_cap=2)
b = SimpleContract(name='b', nodes=n2, price='q', min_cap=-2, max_cap=1, extra_costs=0.1)
t = Transport(name='t', nodes=[n1,n2], min_cap=0, max_cap=1, efficiency=0.9, costs_const=0.01)
s = Storage('s', nodes=n1, size=50, cap_in=1, cap_out=1)
P = Portfolio([a,b,t,s])
rng = np.random.default_rng(1); T=tg.T; k=3
base = {'p': rng.normal(5,2,T), 'q': rng.normal(5,2,T)}
def scen():
    d = {kk: v.copy() for kk,v in base.items()}
    for kk in d: d[kk][k:] += rng.normal(0,2,T-k)
    return d
samples = [scen() for _ in range(3)]
op = quiet(P.setup_optim_problem, base, tg)
m = len(op.c)
slp = make_slp(copy.deepcopy(op), P, tg, tg.timepoints[k].to_pydatetime(), samples)
rs = quiet(slp.optimize)
mp = op.mapping[~op.mapping.index.duplicated()].sort_index()
fut = mp.time_step.values >= k; nf = fut.sum(); S = len(samples)
print('layout ok', len(slp.c) == m + S*nf)
cs = [op.c] + P.create_cost_samples(samples, tg)
xs = []
for si in range(S+1):
    x = rs.x[:m].copy()
    if si>0: x[fut] = rs.x[m+(si-1)*nf : m+si*nf]
    xs.append(x)
print('feas resid per scenario', [round(resid(x, op.l, op.u, op.A, op.b, op.cType),9) for x in xs])
dec = -(op.c[~fut]@rs.x[:m][~fut]) - np.mean([c[fut]@x[fut] for c,x in zip(cs,xs)])
print('V_SLP', rs.value, 'decomposed', dec)
Vs=[]; Xs=[]
for c in cs:
    v,x = highs(c, op.l, op.u, op.A, op.b, op.cType); Vs.append(v); Xs.append(x)
print('WS mean', np.mean(Vs))
for kx in range(S+1):
    l = op.l.copy(); u = op.u.copy(); l[~fut] = Xs[kx][~fut]; u[~fut] = Xs[kx][~fut]
    eev = np.mean([highs(c,l,u,op.A,op.b,op.cType)[0] for c in cs])
    print(' EEV from scenario', kx, eev, '<= SLP', eev <= rs.value+1e-6)
