import warnings; warnings.filterwarnings('ignore')
import numpy as np, pandas as pd, datetime as dt, io, contextlib
import scipy.sparse as sp
from scipy.optimize import milp, LinearConstraint, Bounds
from eaopack.assets import *
from eaopack.portfolio import Portfolio
def quiet(f,*a,**k):
    with contextlib.redirect_stdout(io.StringIO()):
        return f(*a,**k)
def highs(op, extraA=None):
    A = op.A.tocsr(); ct = np.array(list(op.cType)); b = op.b
    lo = np.where((ct=='L')|(ct=='S')|(ct=='N'), b, -np.inf); hi = np.where((ct=='U')|(ct=='S')|(ct=='N'), b, np.inf)
    cons=[LinearConstraint(A, lo, hi)]
    if extraA is not None: cons.append(LinearConstraint(extraA, 0, 0))
    r = milp(op.c, constraints=cons, bounds=Bounds(op.l, op.u)); return -r.fun if r.status==0 else None
n1,n2 = Node('a'),Node('b')
tg = Timegrid(dt.datetime(2021,1,1), dt.datetime(2021,1,4), freq='4h')
T = tg.T; rng = np.random.default_rng(3)
pr = {'p': rng.normal(5,2,T), 'q': rng.normal(5,2,T), 'r': rng.normal(5,2,T)}
m1 = SimpleContract(name='m1', nodes=n1, price='p', min_cap=-3, max_cap=3, extra_costs=0.3)
m2 = SimpleContract(name='m2', nodes=n2, price='q', min_cap=-3, max_cap=3, extra_costs=0.3)
tr = Transport(name='t', nodes=[n1,n2], min_cap=0, max_cap=1, efficiency=0.9)
# coarse two-variable contract (spread) with freq d, window
def mk(freq, prices):
    return SimpleContract(name='X', nodes=n1, price='r', min_cap=-2, max_cap=1, extra_costs=0., freq=freq, start=dt.datetime(2021,1,2))
P = Portfolio([m1,m2,tr,mk('d',pr)]); op = quiet(P.setup_optim_problem, pr, tg); r = quiet(op.optimize)
# fine with averaged price and equalities
pr2 = dict(pr); rr = pr['r'].copy()
steps_per = 6
for d0 in range(6, T, 6): rr[d0:d0+6] = pr['r'][d0:d0+6].mean()
pr2['r'] = rr
Pf = Portfolio([m1,m2,tr,mk(None,pr2)]); opf = quiet(Pf.setup_optim_problem, pr2, tg)
mp = opf.mapping[(opf.mapping.asset=='X')]
rows=[]
for vn in mp.var_name.unique():
    mm = mp[mp.var_name==vn]
    for d0 in range(6, T, 6):
        idx = mm.index[(mm.time_step>=d0)&(mm.time_step<d0+6)].tolist()
        for a_,b_ in zip(idx[:-1], idx[1:]):
            row = np.zeros(len(opf.c)); row[a_]=1; row[b_]=-1; rows.append(row)
E = sp.csr_matrix(np.array(rows))
print('coarse EAO', r.value, 'fine+eq HiGHS', highs(opf, E), 'coarse via HiGHS', highs(op))
