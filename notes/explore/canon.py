import warnings; warnings.filterwarnings('ignore')
import numpy as np, pandas as pd, datetime as dt, io, contextlib
from eaopack.assets import *
from eaopack.portfolio import Portfolio, StructuredAsset
def quiet(f,*a,**k):
    with contextlib.redirect_stdout(io.StringIO()):
        return f(*a,**k)
def build(unit, f, names, tz='CET'):
    # f: rate factor per unit relative to hour
    N = [Node(names['n1']), Node(names['n2']), Node(names['n3'])]
    tg = Timegrid(dt.date(2021,3,26), dt.date(2021,3,30), freq='4h', main_time_unit=unit, timezone=tz)
    rng = np.random.default_rng(5); T = tg.T
    pr = {'p': rng.normal(5,2,T), 'q': rng.normal(5,2,T), 'g': rng.normal(2,0.2,T)}
    take = {'start':[dt.datetime(2021,3,26,8)], 'end':[dt.datetime(2021,3,29)], 'values':[20.]}
    A = [Storage(names['S'], nodes=N[0], size=30, cap_in=1*f, cap_out=1.5*f, inflow=0.1*f, cost_store=0.01*f, eff_in=0.9, start_level=2, end_level=3, wacc=0.05, cost_in=0.1),
         SimpleContract(name=names['m'], nodes=N[0], price='p', min_cap=-3*f, max_cap=3*f, wacc=0.05, extra_costs=0.2),
         Contract(name=names['c'], nodes=N[1], price='q', min_cap=0, max_cap=2*f, max_take=take, start=dt.datetime(2021,3,26,4)),
         Transport(name=names['t'], nodes=[N[0],N[1]], min_cap=0, max_cap=2*f, efficiency=0.93, costs_const=0.05),
         SimpleContract(name=names['m2'], nodes=N[1], price='q', min_cap=-5*f, max_cap=5*f, extra_costs=0.3),
         Plant(name=names['P'], nodes=[N[0], N[2]], min_cap=1*f, max_cap=4*f, ramp=2*f, min_runtime=8/f, min_downtime=8/f, time_already_off=4/f, start_costs=3., running_costs=0.2*f, fuel_efficiency=0.5, consumption_if_on=0.1*f, start_fuel=1.),
         SimpleContract(name=names['gas'], nodes=N[2], price='g', min_cap=0, max_cap=50*f)]
    P = Portfolio(A); op = quiet(P.setup_optim_problem, pr, tg)
    return op
names0 = {k:k for k in ['n1','n2','n3','S','m','c','t','m2','P','gas']}
names1 = {'n1':'x','n2':'xx','n3':'x y','S':'a','m':'ab','c':'b','t':'t (x)','m2':'__','P':'P_internal_x','gas':'G'}
a = build('h',1.,names0); b = build('h',1.,names1)
def cmp(a,b,label):
    A1=a.A.tocsr(); A2=b.A.tocsr()
    print(label, 'c',np.abs(a.c-b.c).max(),'l',np.abs(a.l-b.l).max(),'u',np.abs(a.u-b.u).max(),'b',np.abs(a.b-b.b).max(),'A',abs(A1-A2).max(),'cType',a.cType==b.cType, 'relA', abs(A1-A2).max()/abs(A1).max())
cmp(a,b,'rename')
cmp(a, build('d',24.,names0), 'unit d')
cmp(a, build('min',1/60.,names0), 'unit min')
