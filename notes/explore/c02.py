"""throw-away prototype of the C02 reference LP (contracts, transport, storage) vs EAO"""
import warnings; warnings.filterwarnings('ignore')
import numpy as np, pandas as pd, datetime as dt, io, contextlib, sys
import scipy.sparse as sp
from scipy.optimize import linprog
from eaopack.assets import *
from eaopack.portfolio import Portfolio
import eaopack as eao
def quiet(f,*a,**k):
    with contextlib.redirect_stdout(io.StringIO()):
        return f(*a,**k)

UNIT = {'h': 3600e9, 'd': 86400e9, 'min': 60e9}
class Ref:
    def __init__(self, spec):
        g = spec['grid']
        tp = pd.date_range(start=pd.Timestamp(g['start'], tz=g['tz']), end=pd.Timestamp(g['end'], tz=g['tz']), freq=g['freq'])
        utc = np.array([t.value for t in tp], dtype=float)      # ns since epoch (UTC)
        self.tp = tp[:-1]; self.T = len(self.tp)
        self.dt = (utc[1:]-utc[:-1])/UNIT[g['unit']]
        self.elapsed_days = (utc[1:]-utc[0])/UNIT['d']          # end of step
        self.nv = 0; self.c = []; self.lb = []; self.ub = []
        self.rows = []  # (coefs dict, lo, hi)
        self.bal = {}   # (node,t) -> dict var->coef
        self.tz = g['tz']
    def var(self, lb, ub, c):
        self.c.append(c); self.lb.append(lb); self.ub.append(ub); self.nv += 1; return self.nv-1
    def addbal(self, node, t, v, coef):
        self.bal.setdefault((node,t),{}); self.bal[(node,t)][v] = self.bal[(node,t)].get(v,0)+coef
    def ts(self, x):
        x = pd.Timestamp(x)
        return x.tz_localize(self.tz) if (x.tzinfo is None and self.tz) else x
    def window(self, a):
        s = self.ts(a['start']) if a.get('start') is not None else None
        e = self.ts(a['end']) if a.get('end') is not None else None
        return [t for t in range(self.T) if (s is None or self.tp[t] >= s) and (e is None or self.tp[t] < e)]
    def disc(self, wacc): return (1+wacc)**(-self.elapsed_days/365.)
    def vec(self, v, prices):
        if isinstance(v, str): return np.asarray(prices[v], float)
        return np.ones(self.T)*v
    def contract(self, a, prices):
        W = self.window(a); d = self.disc(a.get('wacc',0))
        p = self.vec(a['price'], prices) if a.get('price') else np.zeros(self.T)
        ec = self.vec(a.get('extra_costs',0.), prices); mn = self.vec(a['min_cap'],prices); mx = self.vec(a['max_cap'],prices)
        xs = {}
        for t in W:
            lo, hi = mn[t]*self.dt[t], mx[t]*self.dt[t]
            # x = pos - neg
            pos = self.var(max(0,lo), max(0,hi), (p[t]+ec[t])*d[t]); neg = self.var(max(0,-hi), max(0,-lo), (-p[t]+ec[t])*d[t])
            self.addbal(a['node'], t, pos, 1.); self.addbal(a['node'], t, neg, -1.)
            xs[t] = (pos,neg)
        for key, sense in (('max_take','U'),('min_take','L')):
            tk = a.get(key)
            if tk:
                for s,e,v in zip(tk['start'],tk['end'],tk['values']):
                    s=self.ts(s); e=self.ts(e)
                    S = [t for t in W if s <= self.tp[t] < e]
                    if not S: continue
                    rhs = v * self.dt[S].sum() / ((e-s).value/UNIT[SPECUNIT])
                    co = {}
                    for t in S: co[xs[t][0]] = 1.; co[xs[t][1]] = -1.
                    self.rows.append((co, -np.inf if sense=='U' else rhs, rhs if sense=='U' else np.inf))
    def transport(self, a, prices):
        W = self.window(a); d = self.disc(a.get('wacc',0))
        cts = self.vec(a['costs_time_series'], prices) if a.get('costs_time_series') else np.zeros(self.T)
        for t in W:
            f = self.var(a['min_cap']*self.dt[t], a['max_cap']*self.dt[t], (cts[t]+a.get('costs_const',0))*d[t])
            self.addbal(a['nodes'][0], t, f, -1.); self.addbal(a['nodes'][1], t, f, a.get('efficiency',1.))
    def storage(self, a, prices):
        W = self.window(a); d = self.disc(a.get('wacc',0))
        if not W: return
        p = self.vec(a['price'], prices) if a.get('price') else np.zeros(self.T)
        nin = a['nodes'][0]; nout = a['nodes'][-1]
        prevL = None; cuminfl = 0.
        for i,t in enumerate(W):
            ch = self.var(0, a['cap_in']*self.dt[t], (a.get('cost_in',0)+p[t])*d[t])   # charging takes from node: node gets -ch ; EAO: c=-price on x, x=-ch => +price*ch
            di = self.var(0, a['cap_out']*self.dt[t], (a.get('cost_out',0)-p[t])*d[t])
            cuminfl += a.get('inflow',0)*self.dt[t]
            # net stored by dispatch N_t (level = start + inflow_cum + N_t)
            N = self.var(-a['start_level']-cuminfl, a['size']-a['start_level']-cuminfl, a.get('cost_store',0)*self.dt[t]*d[t])
            co = {N:1., ch:-a.get('eff_in',1.), di:1.}
            if prevL is not None: co[prevL] = -1.
            self.rows.append((co,0.,0.))
            if i == len(W)-1:
                tgt = a['end_level']-a['start_level']-cuminfl
                self.lb[N] = tgt; self.ub[N] = tgt
            prevL = N
            self.addbal(nin, t, ch, -1.); self.addbal(nout, t, di, 1.)
    def solve(self):
        rows = list(self.rows) + [(co,0.,0.) for co in self.bal.values()]
        A = sp.lil_matrix((len(rows), self.nv)); lo=[]; hi=[]
        for i,(co,l,h) in enumerate(rows):
            for v,cf in co.items(): A[i,v] = cf
            lo.append(l); hi.append(h)
        from scipy.optimize import milp, LinearConstraint, Bounds
        if np.any(np.array(self.lb) > np.array(self.ub)+1e-12): return None
        r = milp(np.array(self.c), constraints=LinearConstraint(A.tocsr(), lo, hi), bounds=Bounds(self.lb, self.ub))
        return -r.fun if r.status==0 else None

def build_eao(spec, prices):
    g = spec['grid']; nodes = {}
    def N(n):
        nodes.setdefault(n, Node(n)); return nodes[n]
    tg = Timegrid(pd.Timestamp(g['start']), pd.Timestamp(g['end']), freq=g['freq'], main_time_unit=g['unit'], timezone=g['tz'])
    A = []
    for a in spec['assets']:
        k = {kk:v for kk,v in a.items() if kk not in ('type','node','nodes')}
        for kk in ('start','end'):
            if k.get(kk) is not None: k[kk] = pd.Timestamp(k[kk]).to_pydatetime()
        for kk in ('min_take','max_take'):
            if k.get(kk): k[kk] = {'start':[pd.Timestamp(x).to_pydatetime() for x in k[kk]['start']], 'end':[pd.Timestamp(x).to_pydatetime() for x in k[kk]['end']], 'values': list(k[kk]['values'])}
        if a['type']=='contract': A.append(Contract(nodes=N(a['node']), **k))
        if a['type']=='transport': A.append(Transport(nodes=[N(n) for n in a['nodes']], **k))
        if a['type']=='storage': A.append(Storage(nodes=[N(n) for n in a['nodes']] if len(a['nodes'])>1 else N(a['nodes'][0]), **k))
    return Portfolio(A), tg

def gen(rng):
    global SPECUNIT
    freq, steps = [('h',24),('4h',12),('d',6),('30min',20)][rng.integers(4)]
    unit = ['h','d','min'][rng.integers(3)]; SPECUNIT = unit
    f = {'h':1.,'d':24.,'min':1/60.}[unit]
    tz = [None,'CET','America/New_York'][rng.integers(3)]
    start = pd.Timestamp(['2021-01-10','2021-03-27','2021-10-30','2021-03-13'][rng.integers(4)]) + pd.Timedelta(hours=int(rng.integers(0,3))*6)
    end = start + steps*pd.Timedelta(pd.tseries.frequencies.to_offset(freq))
    T_guess = steps
    nn = int(rng.integers(1,4)); nodes = ['n%d'%i for i in range(nn)]
    assets = []
    def win():
        r = rng.random()
        if r < 0.5: return None, None
        a_ = start + rng.integers(-2, steps)*pd.Timedelta(pd.tseries.frequencies.to_offset(freq)); b_ = a_ + rng.integers(1, steps+3)*pd.Timedelta(pd.tseries.frequencies.to_offset(freq))
        return str(a_), str(b_)
    for i,n in enumerate(nodes):
        assets.append(dict(type='contract', name='mkt%d'%i, node=n, price='p%d'%i, min_cap=-20*f, max_cap=20*f, extra_costs=float(rng.choice([0.,0.5])), wacc=float(rng.choice([0.,0.1]))))
    for j in range(int(rng.integers(1,5))):
        ty = ['contract','transport','storage'][rng.integers(3)]
        s,e = win()
        if ty=='contract':
            lo,hi = sorted(rng.choice([-3.,-1.,0.,0.,2.,4.], 2)*f)
            a = dict(type='contract', name='c%d'%j, node=str(rng.choice(nodes)), price='q%d'%j, min_cap=float(lo), max_cap=float(hi), extra_costs=float(rng.choice([0.,0.3,1.])), wacc=float(rng.choice([0.,0.2])), start=s, end=e)
            if rng.random()<0.6:
                ts_ = start + rng.integers(-3, steps-1)*pd.Timedelta(pd.tseries.frequencies.to_offset(freq)); te_ = ts_ + rng.integers(2, steps+4)*pd.Timedelta(pd.tseries.frequencies.to_offset(freq))
                key = 'max_take' if hi>0 else 'min_take'
                dur_h = (te_-ts_)/pd.Timedelta(hours=1)
                val = float((hi if hi>0 else lo)/f*dur_h*rng.uniform(0.2,0.8))
                a[key] = {'start':[str(ts_)], 'end':[str(te_)], 'values':[val]}
            assets.append(a)
        elif ty=='transport' and nn>1:
            n1_,n2_ = rng.choice(nodes,2,replace=False)
            assets.append(dict(type='transport', name='t%d'%j, nodes=[str(n1_),str(n2_)], min_cap=0., max_cap=float(rng.choice([1.,3.])*f), efficiency=float(rng.choice([1.,0.9,0.7])), costs_const=float(rng.choice([0.,0.2])), costs_time_series=('q%d'%j if rng.random()<0.3 else None), wacc=float(rng.choice([0.,0.2])), start=s, end=e))
        elif ty=='storage':
            size = float(rng.choice([0.,5.,20.])); sl = float(rng.choice([0., size/2])); el = float(rng.choice([sl, 0., size/4]))
            nds = [str(rng.choice(nodes))] if (nn==1 or rng.random()<0.6) else [str(x) for x in rng.choice(nodes,2,replace=False)]
            assets.append(dict(type='storage', name='s%d'%j, nodes=nds, size=size, cap_in=float(rng.choice([1.,2.])*f), cap_out=float(rng.choice([1.,2.])*f), start_level=sl, end_level=el,
                               eff_in=float(rng.choice([1.,0.9,0.8])), inflow=float(rng.choice([0.,0.,0.05])*f), cost_in=float(rng.choice([0.,0.1])), cost_out=float(rng.choice([0.,0.2])), cost_store=float(rng.choice([0.,0.01])*f),
                               price=('q%d'%j if rng.random()<0.3 else None), wacc=float(rng.choice([0.,0.3])), start=s, end=e))
    return dict(grid=dict(start=str(start), end=str(end), freq=freq, unit=unit, tz=tz), assets=assets)

bad = 0; n=0; infeas=0; rej=0
for seed in range(int(sys.argv[1]), int(sys.argv[2])):
    rng = np.random.default_rng(seed)
    spec = gen(rng)
    try:
        P, tg = build_eao(spec, None)
    except Exception as e:
        rej += 1; continue
    prices = {}
    for i in range(4): prices['p%d'%i] = rng.normal(5,3,tg.T).round(3)
    for j in range(5): prices['q%d'%j] = rng.normal(5,3,tg.T).round(3)
    try:
        op = quiet(P.setup_optim_problem, prices, tg); r = quiet(op.optimize)
    except Exception as e:
        print(seed, 'EAO EXC', type(e).__name__, str(e)[:100]); rej += 1; continue
    ref = Ref(spec)
    assert ref.T == tg.T and np.allclose(ref.dt, tg.dt)
    for a in spec['assets']: getattr(ref, a['type'])(a, prices)
    v = ref.solve()
    ve = None if isinstance(r,str) else r.value
    n += 1
    if v is None or ve is None:
        infeas += 1
        if (v is None) != (ve is None): bad += 1; print(seed, 'FEAS MISMATCH ref', v, 'eao', ve)
        continue
    if abs(v-ve) > 1e-5*(1+abs(v)):
        bad += 1; print(seed, 'VALUE MISMATCH ref', v, 'eao', ve, [ (a['type'],a['name']) for a in spec['assets']], spec['grid'])
print('cases', n, 'mismatch', bad, 'both infeasible', infeas, 'rejected', rej)
