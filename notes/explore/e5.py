import warnings; warnings.filterwarnings('ignore')
import numpy as np, pandas as pd, datetime as dt, io, contextlib
import eaopack as eao
from eaopack.assets import *
from eaopack.portfolio import Portfolio
def quiet(f,*a,**k):
    with contextlib.redirect_stdout(io.StringIO()):
        return f(*a,**k)
n1 = Node('a')
tg = Timegrid(dt.date(2021,1,1), dt.date(2021,1,4), freq='4h')
T = tg.T
pr = {'p': 5+np.sin(np.arange(T))*3}
for kw in (dict(inflow=0.), dict(inflow=0.25), dict(inflow=0.25, block_size=None), dict(inflow=0., start_level=2, end_level=4)):
    kw = dict(dict(size=10, cap_in=1, cap_out=1, start_level=3, end_level=3, block_size='d', price='p'), **kw)
    s = Storage('S', nodes=n1, **kw)
    op = s.setup_optim_problem(pr, tg); r = quiet(op.optimize)
    if isinstance(r,str): print(kw, r); continue
    x = r.x[:T]
    lvl = kw['start_level'] + np.cumsum(-x + kw['inflow']*tg.dt)
    print({k:v for k,v in kw.items() if k in('inflow','block_size','start_level','end_level')}, 'value', round(r.value,3))
    print('  level', np.round(lvl,2))
    print('  b upper', np.round(op.b[:T],2))
