import warnings; warnings.filterwarnings('ignore')
import numpy as np, pandas as pd, datetime as dt, io, contextlib, itertools, sys
from eaopack.assets import *
from scipy.optimize import milp, LinearConstraint, Bounds
def quiet(f,*a,**k):
    with contextlib.redirect_stdout(io.StringIO()):
        return f(*a,**k)
n1 = Node('a')

def model(p, MR, MD, R, F):
    """admissible on/off pattern? MR/MD in steps (<=1 means none); R>0: running for R steps; F>0: off for F steps; both 0: off, unknown duration"""
    T = len(p)
    if R > 0: hist = [1]*R
    elif F > 0: hist = [0]*F
    else: hist = []
    seq = hist + list(p); H = len(hist); N = len(seq)
    i = 0
    while i < N:
        j = i
        while j < N and seq[j] == seq[i]: j += 1
        length = j - i; cut = (j == N)
        unknown_start = (i == 0 and H == 0 and seq[i] == 0)   # off before, duration unknown -> no claim
        if not cut and not unknown_start:
            if seq[i] == 1 and MR > 1 and length < MR: return False
            if seq[i] == 0 and MD > 1 and length < MD: return False
        i = j
    return True

def feasible(op, on_idx, p):
    l = op.l.copy(); u = op.u.copy()
    T = len(p)
    l[on_idx:on_idx+T] = np.maximum(l[on_idx:on_idx+T], p); u[on_idx:on_idx+T] = np.minimum(u[on_idx:on_idx+T], p)
    if np.any(l > u + 1e-12): return False
    A = op.A.tocsr(); ct = np.array(list(op.cType)); b = op.b
    lo = np.where((ct=='L')|(ct=='S')|(ct=='N'), b, -np.inf); hi = np.where((ct=='U')|(ct=='S')|(ct=='N'), b, np.inf)
    m = op.mapping[~op.mapping.index.duplicated()]
    integ = np.zeros(len(op.c)); 
    if 'bool' in m: integ[m.index[m['bool']==True]] = 1
    res = milp(np.zeros(len(op.c)), constraints=LinearConstraint(A, lo, hi), bounds=Bounds(l,u), integrality=integ)
    return res.status == 0

T = 6
tg = Timegrid(dt.datetime(2021,1,1), dt.datetime(2021,1,1)+dt.timedelta(hours=T), freq='h')
bad = 0; tot = 0
for MR, MD, (R,F), sc in itertools.product([0,2,3,4],[0,2,3],[(0,1),(0,3),(1,0),(2,0),(5,0),(0,0)], [0., 1.]):
    if MD > 1 and not ((F==0) ^ (R==0)): continue
    try:
        pl = Plant(name='P', nodes=[n1], min_cap=1., max_cap=4., min_runtime=MR, min_downtime=MD, time_already_running=R, time_already_off=F, start_costs=sc)
        op = quiet(pl.setup_optim_problem, {}, tg)
    except Exception as e:
        print('reject', MR,MD,R,F,sc, type(e).__name__, e); continue
    on_idx = pl.on_idx
    for p in itertools.product([0,1], repeat=T):
        p = np.array(p, float)
        fe = feasible(op, on_idx, p); mo = model(p.astype(int), MR, MD, R, F)
        tot += 1
        if fe != mo:
            bad += 1
            if bad <= 25: print('DISAGREE MR',MR,'MD',MD,'R',R,'F',F,'sc',sc,'pattern',p.astype(int),'eao',fe,'model',mo)
print('total', tot, 'disagreements', bad)
