import warnings; warnings.filterwarnings('ignore')
import numpy as np, pandas as pd, datetime as dt, io, contextlib
import eaopack as eao
from eaopack.assets import *
from eaopack.portfolio import Portfolio

def quiet(f,*a,**k):
    with contextlib.redirect_stdout(io.StringIO()):
        return f(*a,**k)

print("=== 1. order book with out-of-horizon order in the middle")
node = Node('n')
tg = Timegrid(dt.date(2021,1,1), dt.date(2021,1,4), freq='d')
ob = dict(start=[pd.Timestamp(2021,1,1), pd.Timestamp(2021,2,1), pd.Timestamp(2021,1,2)],
          end=[pd.Timestamp(2021,1,2), pd.Timestamp(2021,2,2), pd.Timestamp(2021,1,3)],
          capa=[1., 1., 1.], price=[1., 2., 3.])
a = SimpleContract(name='SC', nodes=node, price='m', min_cap=-100, max_cap=100)
o = OrderBook(name='ob', orders=ob, nodes=node)
for assets in ([a,o],[o,a]):
    p = Portfolio(assets)
    op = p.setup_optim_problem({'m': 10*np.ones(tg.T)}, tg)
    print([x.name for x in assets], 'c=',op.c, 'n_vars',len(op.c), 'A shape', op.A.shape)
    print(op.mapping[['asset','index_assets','time_step','disp_factor']].assign(idx=op.mapping.index).to_string())
    r = quiet(op.optimize)
    print('value', r if isinstance(r,str) else r.value)
# reference: drop outside order
ob2 = {k:[v[0],v[2]] for k,v in ob.items()}
p = Portfolio([a, OrderBook(name='ob', orders=ob2, nodes=node)])
op = p.setup_optim_problem({'m': 10*np.ones(tg.T)}, tg); r = quiet(op.optimize); print('ref value', r.value)
