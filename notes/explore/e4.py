import warnings; warnings.filterwarnings('ignore')
import numpy as np, pandas as pd, datetime as dt, io, contextlib, traceback, copy
import eaopack as eao
from eaopack.assets import *
from eaopack.portfolio import Portfolio, StructuredAsset, LinkedAsset
from eaopack import serialization as ser

def quiet(f,*a,**k):
    with contextlib.redirect_stdout(io.StringIO()):
        return f(*a,**k)
def trycall(label, f):
    try:
        r = f(); print(label, '->', r)
    except Exception as e:
        print(label, 'EXC', type(e).__name__, str(e)[:300])
n1,n2 = Node('a'),Node('b')

print("=== 10. purity: dict mutated by tz localization; second call with naive grid")
cap = {'start':[dt.datetime(2021,3,27)], 'end':[dt.datetime(2021,3,31)], 'values':[-1.]}
c = Contract(name='c', nodes=n1, price='p', min_cap=cap, max_cap=1.)
tgz = Timegrid(dt.date(2021,3,27), dt.date(2021,3,30), freq='h', timezone='CET')
tgn = Timegrid(dt.date(2021,3,27), dt.date(2021,3,30), freq='h')
quiet(c.setup_optim_problem, {'p':np.ones(tgz.T)}, tgz)
print('dict after first call:', {k:type(v).__name__ for k,v in cap.items()}, cap['start'])
trycall('second call naive grid', lambda: len(quiet(c.setup_optim_problem, {'p':np.ones(tgn.T)}, tgn).c))

print("=== 10b. implicit end stored, later grid")
cap = {'start':[dt.datetime(2021,3,27), dt.datetime(2021,3,29)], 'values':[-1.,-2.]}
c = Contract(name='c', nodes=n1, price='p', min_cap=cap, max_cap=1.)
quiet(c.setup_optim_problem, {'p':np.ones(tgn.T)}, tgn); print('keys now', list(cap.keys()), cap.get('end'))

print("=== 10c. structured asset clips inner asset start/end permanently")
inner = SimpleContract(name='i', nodes=n1, price='p', min_cap=-1, max_cap=1, start=dt.datetime(2021,3,27), end=dt.datetime(2021,3,30))
sa = StructuredAsset(name='S', portfolio=Portfolio([inner]), nodes=n1, start=dt.datetime(2021,3,28), end=dt.datetime(2021,3,29))
quiet(sa.setup_optim_problem, {'p':np.ones(tgn.T)}, tgn)
print('inner start/end after', inner.start, inner.end)

print("=== 10d. prices mutated?")
p = {'p': np.arange(tgn.T, dtype=float)}; p0 = copy.deepcopy(p)
st = Storage('S', nodes=n1, size=10, cap_in=2, cap_out=2, price='p', freq='d')
quiet(st.setup_optim_problem, p, tgn); print('prices unchanged', np.array_equal(p['p'], p0['p']))

print("=== 12. main time unit equivalence / DST daily")
def portf(unit):
    f = {'h':1., 'd':24., 'min':1/60.}[unit]   # rate per unit = rate per hour * f
    tg = Timegrid(dt.date(2021,3,26), dt.date(2021,3,31), freq='d', main_time_unit=unit, timezone='CET')
    s = Storage('S', nodes=n1, size=30, cap_in=1*f, cap_out=1*f, inflow=0.1*f, cost_store=0.01*f, eff_in=0.9, start_level=2, end_level=2, wacc=0.05)
    m = SimpleContract(name='m', nodes=n1, price='p', min_cap=-3*f, max_cap=3*f, wacc=0.05)
    P = Portfolio([s,m]); op = P.setup_optim_problem({'p': np.array([1.,5.,2.,6.,3.])}, tg)
    return tg, op, quiet(op.optimize)
for u in ('h','d','min'):
    tg, op, r = portf(u); print(u, 'dt', tg.dt, 'value', round(r.value,6))

print("=== 14. split vs unsplit, partial last interval, discount")
tg = Timegrid(dt.datetime(2021,1,1,6), dt.datetime(2021,1,4,3), freq='h')
pr = {'p': np.sin(np.arange(tg.T)/3.)+2, 'q': np.cos(np.arange(tg.T)/5.)+2}
a = SimpleContract(name='a', nodes=n1, price='p', min_cap=-1, max_cap=2, wacc=0.3)
b = SimpleContract(name='b', nodes=n2, price='q', min_cap=-2, max_cap=1, extra_costs=0.1, wacc=0.3)
t = Transport(name='t', nodes=[n1,n2], min_cap=0, max_cap=1, efficiency=0.9, costs_const=0.01)
P = Portfolio([a,b,t])
op = P.setup_optim_problem(pr, tg); r = quiet(op.optimize)
ops = P.setup_split_optim_problem(pr, tg, interval_size='d'); rs = quiet(ops.optimize)
print('unsplit', r.value, 'split', rs.value, 'n intervals', len(ops.ops), [o.c.shape[0] for o in ops.ops])
outs = eao.io.extract_output(P, ops, rs); out = eao.io.extract_output(P, op, r)
print('disp diff', (outs['dispatch']-out['dispatch']).abs().max().max(), 'dcf diff', (outs['DCF']-out['DCF']).abs().max().max())
print('split time_steps range', ops.mapping.time_step.min(), ops.mapping.time_step.max(), 'T', tg.T)

print("=== 18. nodal price sign")
tg = Timegrid(dt.date(2021,1,1), dt.date(2021,1,4), freq='d')
buy = SimpleContract(name='buy', nodes=n1, price='p', min_cap=0, max_cap=10)
dem = SimpleContract(name='dem', nodes=n1, min_cap=-1/24, max_cap=-1/24)
P = Portfolio([buy, dem]); op = P.setup_optim_problem({'p': np.array([3.,4.,5.])}, tg); r = quiet(op.optimize)
out = eao.io.extract_output(P, op, r); print(out['prices'].T, 'value', r.value)
print('duals N', r.duals['N'], 'map_nodal', op.map_nodal_restr, 'cType', op.cType)
