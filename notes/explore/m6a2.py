import warnings; warnings.filterwarnings('ignore')
import numpy as np, itertools, datetime as dt
exec(open('m6a.py').read().split("T = 6")[0])
import math
T = 7
bad=tot=0
for freq, unit, stepf in (('30min','h',0.5), ('2h','h',2.0), ('h','d',1/24.)):
    tg = Timegrid(pd.Timestamp(2021,1,1), pd.Timestamp(2021,1,1)+T*pd.Timedelta(pd.tseries.frequencies.to_offset(freq)), freq=freq, main_time_unit=unit)
    for MRs, MDs, (Rs,Fs), prof in itertools.product([0,2,3],[0,2,3],[(0,1),(0,2),(1,0),(2,0),(4,0)], [None, ([1.,2.],[3.]) , ([1.],None)]):
        MR, MD, R, F = MRs*stepf, MDs*stepf, Rs*stepf, Fs*stepf
        kw = {}
        k=m=0
        if prof:
            s_, sd_ = prof
            kw = dict(start_ramp_lower_bounds=s_, start_ramp_upper_bounds=s_, ramp_freq=freq)
            k = len(s_)
            if sd_: kw.update(shutdown_ramp_lower_bounds=sd_, shutdown_ramp_upper_bounds=sd_); m = len(sd_)
        try:
            pl = Plant(name='P', nodes=[n1], min_cap=4., max_cap=8., min_runtime=MR, min_downtime=MD, time_already_running=R, time_already_off=F, **kw)
            op = quiet(pl.setup_optim_problem, {}, tg)
        except Exception as e:
            print('reject', freq, MRs,MDs,Rs,Fs,prof, type(e).__name__, str(e)[:80]); continue
        MReff = MRs + k + m
        for p in itertools.product([0,1], repeat=T):
            p = np.array(p,float)
            fe = feasible(op, pl.on_idx, p); mo = model(p.astype(int), MReff, MDs, Rs, Fs)
            tot += 1
            if fe != mo:
                bad += 1
                if bad <= 30: print('DISAGREE', freq, 'MR',MRs,'MD',MDs,'R',Rs,'F',Fs,'prof',prof,'p',p.astype(int),'eao',fe,'model',mo)
print('total',tot,'disagreements',bad)
