import warnings; warnings.filterwarnings('ignore')
import numpy as np, pandas as pd, datetime as dt, io, contextlib, traceback
import eaopack as eao
from eaopack.assets import *
from eaopack.portfolio import Portfolio, StructuredAsset, LinkedAsset
from eaopack import serialization as ser

def quiet(f,*a,**k):
    with contextlib.redirect_stdout(io.StringIO()):
        return f(*a,**k)
def trycall(label, f):
    try:
        r = f(); print(label, '->', r)
    except Exception as e:
        print(label, 'EXC', type(e).__name__, str(e)[:300])

n1,n2 = Node('a'),Node('b')
print("=== 6. fix_time_window with transport")
tg = Timegrid(dt.date(2021,1,1), dt.date(2021,1,11), freq='d')
pr = {'buy': np.ones(tg.T), 'sell': 5+np.sin(np.arange(tg.T))}
t = Transport(name='T', nodes=[n1,n2], min_cap=0, max_cap=1, costs_const=1.)
b = SimpleContract(name='buy', nodes=n1, price='buy', min_cap=0, max_cap=10)
s = SimpleContract(name='sell', nodes=n2, price='sell', min_cap=-10, max_cap=0)
for assets in ([t,b,s],[b,s,t]):
    p = Portfolio(assets)
    op = p.setup_optim_problem(pr, tg); r = quiet(op.optimize)
    def f():
        I = np.zeros(tg.T, bool); I[:4]=True
        op2 = p.setup_optim_problem(pr, tg, fix_time_window={'I':I,'x':r.x})
        fixed = (op2.l==op2.u)
        return fixed.sum(), op2.mapping.loc[~op2.mapping.index.duplicated()].loc[fixed,'time_step'].tolist()
    trycall('fix '+str([a.name for a in assets]), f)

print("=== 7. CHP first-step ramp when already running")
tg = Timegrid(dt.datetime(2021,1,1), dt.datetime(2021,1,1,6), freq="h")
pl = Plant(name='P', nodes=[n1], min_cap=1., max_cap=10., ramp=1., time_already_running=5, last_dispatch=2., price='p')
op = pl.setup_optim_problem({'p': -np.ones(tg.T)}, tg); r = quiet(op.optimize)
print('disp', np.round(r.x[:tg.T],3), 'on', np.round(r.x[tg.T:2*tg.T],2))
pl = Plant(name='P', nodes=[n1], min_cap=1., max_cap=10., ramp=1., time_already_running=0, time_already_off=3, last_dispatch=0., price='p')
op = pl.setup_optim_problem({'p': -np.ones(tg.T)}, tg); r = quiet(op.optimize)
print('from off: disp', np.round(r.x[:tg.T],3))

print("=== 8. io storage charge/discharge with storage not at last node")
tg = Timegrid(dt.date(2021,1,1), dt.date(2021,1,2), freq='h')
pr = {'buy': 5+np.sin(np.arange(tg.T)), 'sell': 5+np.sin(np.arange(tg.T))}
st = Storage('S', nodes=n1, size=10, cap_in=2, cap_out=2, eff_in=0.9)
m1 = SimpleContract(name='m1', nodes=n1, price='buy', min_cap=-10, max_cap=10)
m2 = SimpleContract(name='m2', nodes=n2, price='sell', min_cap=-10, max_cap=10)
for assets in ([st,m1,m2],[m2,m1,st],[m2,st,m1]):
    p = Portfolio(assets); op = p.setup_optim_problem(pr, tg); r = quiet(op.optimize)
    out = eao.io.extract_output(p, op, r)
    iv = out['internal_variables']
    print([a.name for a in assets], 'charge sum', round(iv['S_charge'].sum(),3), 'discharge sum', round(iv['S_discharge'].sum(),3), 'disp abs sum', round(out['dispatch']['S (a)'].abs().sum(),3))

print("=== 9. serialization")
tgz = Timegrid(dt.date(2021,3,27), dt.date(2021,3,30), freq='h', timezone='CET')
trycall('tg tz roundtrip', lambda: (ser.load_from_json(ser.to_json(tgz)).tz, ser.load_from_json(ser.to_json(tgz)).T, tgz.T))
sc = ScaledAsset(name='sc', base_asset=st, max_scale=2, fix_costs=1.)
trycall('scaled roundtrip', lambda: type(ser.load_from_json(ser.to_json(sc))).__name__)
chp = CHPAsset(name='CHP', nodes=(n1,n2), min_cap=1., max_cap=5., min_runtime=2)
trycall('chp fresh roundtrip', lambda: type(ser.load_from_json(ser.to_json(chp))).__name__)
quiet(chp.setup_optim_problem, {}, tg)
trycall('chp used roundtrip', lambda: type(ser.load_from_json(ser.to_json(chp))).__name__)
a1 = CHPAsset(name='CHP1', extra_costs = 10, nodes = (n1, n2), min_cap=5., max_cap= 5.)
a2 = CHPAsset(name='CHP2', extra_costs = 5, nodes = (n1, n2), min_cap=2., max_cap=15.)
linked = LinkedAsset(Portfolio([a1,a2]), nodes=[n1,n2], asset1_variable=[a2,'disp',n1], asset2_variable=[a1,'bool_on',None], time_back=0, name='L')
trycall('linked roundtrip', lambda: type(ser.load_from_json(ser.to_json(linked))).__name__)
sa = StructuredAsset(name='x', portfolio=Portfolio([m1, st]), nodes=n1)
trycall('structured roundtrip', lambda: type(ser.load_from_json(ser.to_json(sa))).__name__)
pzz = Portfolio([m1]); pzz.set_timegrid(tgz)
def f():
    p2 = ser.load_from_json(ser.to_json(pzz))
    c = Contract(name='c', nodes=n1, price='buy', min_cap={'start':[dt.datetime(2021,3,27)], 'end':[dt.datetime(2021,3,29)], 'values':[-1.]}, max_cap=1.)
    pa = Portfolio([c]); pa.set_timegrid(tgz); opa = pa.setup_optim_problem({'buy':np.ones(tgz.T)})
    c = Contract(name='c', nodes=n1, price='buy', min_cap={'start':[dt.datetime(2021,3,27)], 'end':[dt.datetime(2021,3,29)], 'values':[-1.]}, max_cap=1.)
    pb = Portfolio([c]); pb.set_timegrid(p2.timegrid); opb = pb.setup_optim_problem({'buy':np.ones(tgz.T)})
    return np.abs(opa.l-opb.l).max()
trycall('tz grid + naive interval after load', f)
