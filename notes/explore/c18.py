import warnings; warnings.filterwarnings('ignore')
import sys, copy
src = open('c02.py').read().split("bad = 0; n=0")[0]
exec(src)
viol=0; tot=0; vac=0; cases=0; maxslack=-1e9
for seed in range(int(sys.argv[1]), int(sys.argv[2])):
    rng = np.random.default_rng(seed); spec = gen(rng)
    try: P, tg = build_eao(spec, None)
    except Exception: continue
    prices = {}
    for i in range(4): prices['p%d'%i] = rng.normal(5,3,tg.T).round(3)
    for j in range(5): prices['q%d'%j] = rng.normal(5,3,tg.T).round(3)
    try:
        op = quiet(P.setup_optim_problem, prices, tg); r = quiet(op.optimize)
    except Exception: continue
    if isinstance(r,str): continue
    out = eao.io.extract_output(P, op, r)
    pr = out['prices']; cases += 1
    ct = np.array(list(op.cType)); Nrows = np.where(ct=='N')[0]
    pick = rng.choice(len(Nrows), size=min(6,len(Nrows)), replace=False)
    for k in pick:
        t, node = op.map_nodal_restr[k]
        price = pr.loc[tg.timepoints[t], 'nodal price: '+node]
        for d in (-1., -0.1, 0.1, 1.):
            op2 = copy.deepcopy(op); op2.b = op2.b.copy(); op2.b[Nrows[k]] = -d
            r2 = quiet(op2.optimize); tot += 1
            if isinstance(r2,str): vac += 1; continue
            slack = r2.value - (r.value + price*d)
            maxslack = max(maxslack, slack/(1+abs(r.value)))
            if slack > 1e-5*(1+abs(r.value)):
                viol += 1; print(seed, 'VIOL node',node,'t',t,'d',d,'V0',r.value,'Vd',r2.value,'price',price)
print('cases',cases,'perturbations',tot,'vacuous',vac,'violations',viol,'max rel slack',maxslack)
