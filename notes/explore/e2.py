import warnings; warnings.filterwarnings('ignore')
import numpy as np, pandas as pd, datetime as dt, io, contextlib, traceback
import eaopack as eao
from eaopack.assets import *
from eaopack.portfolio import Portfolio, StructuredAsset, LinkedAsset
from eaopack import serialization as ser

def quiet(f,*a,**k):
    with contextlib.redirect_stdout(io.StringIO()):
        return f(*a,**k)
def trycall(label, f):
    try:
        r = f(); print(label, '->', r)
    except Exception as e:
        print(label, 'EXC', type(e).__name__, str(e)[:200])

print("=== 2. key collision with numeric names")
node = Node('n')
tg = Timegrid(dt.date(2021,1,1), dt.date(2021,1,13), freq='d')  # 12 steps
pr = {'p': np.arange(12.)-5, 'q': (np.arange(12.)%3)-1}
def build(n1,n2):
    a = SimpleContract(name=n1, nodes=node, price='p', min_cap=-1, max_cap=1)
    b = SimpleContract(name=n2, nodes=node, price='q', min_cap=-2, max_cap=2)
    return Portfolio([a,b])
for n1,n2 in (('A','B'),('1','11'),('11','1')):
    p = build(n1,n2); op = p.setup_optim_problem(pr, tg)
    r = quiet(op.optimize)
    print(n1,n2,'nvars',len(op.c),'unique idx',op.mapping.index.nunique(),'value', r if isinstance(r,str) else round(r.value,4))

print("=== 3. periodic transport with costs")
n1,n2 = Node('a'),Node('b')
tg = Timegrid(dt.date(2021,1,1), dt.date(2021,1,3), freq='h')
pr = {'buy': np.ones(tg.T), 'sell': 5+np.sin(np.arange(tg.T))}
def build(per):
    t = Transport(name='T', nodes=[n1,n2], min_cap=0, max_cap=1, costs_const=1., periodicity=per, periodicity_duration=None)
    b = SimpleContract(name='buy', nodes=n1, price='buy', min_cap=0, max_cap=10)
    s = SimpleContract(name='sell', nodes=n2, price='sell', min_cap=-10, max_cap=0)
    return Portfolio([t,b,s]), t
p,t = build('d'); op = p.setup_optim_problem(pr, tg); r = quiet(op.optimize)
print('periodic T: nvars', len(op.c), 'c[T]=', op.c[:3], 'value', r.value)
top = t.setup_optim_problem(pr, tg); print('standalone transport c', top.c[:4], 'len', len(top.c), 'u', top.u[:3])

print("=== 4. periodic 2-var contract standalone")
c = SimpleContract(name='C', nodes=n1, price='sell', min_cap=-1, max_cap=1, extra_costs=0.5, periodicity='d')
op = c.setup_optim_problem(pr, tg)
print('len c', len(op.c), 'mapping idx max', op.mapping.index.max(), 'unique', op.mapping.index.nunique())
trycall('optimize+dcf', lambda: c.dcf(op, quiet(op.optimize)).sum())

print("=== 5. storage inflow fill level report / blocks")
tg = Timegrid(dt.date(2021,1,1), dt.date(2021,1,2), freq='h')
s = Storage('S', nodes=n1, size=10, cap_in=2, cap_out=2, start_level=3, end_level=1, inflow=0.5, eff_in=0.9, price='sell')
op = s.setup_optim_problem({'sell': 5+np.sin(np.arange(tg.T))}, tg); r = quiet(op.optimize)
fl = s.fill_level(op, r)
x = r.x; T = tg.T
phys = 3 + np.cumsum(-x[:T]*0.9 - x[T:] + 0.5*tg.dt)
print('reported', np.round(fl[[0,5,-1]],3), 'physical', np.round(phys[[0,5,-1]],3), 'min/max phys', phys.min().round(3), phys.max().round(3))
