"""Independent solves of an EAO problem (c,l,u,A,b,cType,bools) with scipy/HiGHS; feasibility residuals."""
import numpy as np
import scipy.sparse as sp
from scipy.optimize import milp, LinearConstraint, Bounds

TOL_FEAS = 1e-6
TOL_VAL = 1e-5
TOL_VAL_MIP = 2e-4
TOL_INT = 1e-6


def bool_vars(op):
    """indices of boolean variables exactly as documented: a variable is boolean if its (first) mapping row says so."""
    m = op.mapping
    if m is None or 'bool' not in m.columns:
        return np.zeros(0, dtype=int)
    first = m.loc[~m.index.duplicated(keep='first')]
    idx = first.index[first['bool'].fillna(False).astype(bool)].values.astype(int)
    return idx


def rows(op):
    """(A csr, lo, hi) two-sided row bounds from cType."""
    n = len(op.c)
    if op.A is None or op.A.shape[0] == 0:
        return sp.csr_matrix((0, n)), np.zeros(0), np.zeros(0)
    A = sp.csr_matrix(op.A)
    b = np.asarray(op.b, dtype=float)
    lo = np.full(len(b), -np.inf)
    hi = np.full(len(b), np.inf)
    for i, t in enumerate(op.cType):
        if t == 'U':
            hi[i] = b[i]
        elif t == 'L':
            lo[i] = b[i]
        elif t in ('S', 'N'):
            lo[i] = b[i]; hi[i] = b[i]
        else:
            raise ValueError('unknown cType ' + t)
    return A, lo, hi


def highs(c, l, u, A, lo, hi, integrality=None, time_limit=60., maximize_minus_c=True):
    """Solve max -c.x (EAO convention). Returns dict(status, value, x). status: optimal|infeasible|unbounded|other"""
    c = np.asarray(c, dtype=float)
    cons = []
    if A is not None and A.shape[0] > 0:
        cons = [LinearConstraint(A, lo, hi)]
    # presolve OFF: the HiGHS bundled with scipy 1.14 was caught twice returning wrong answers after presolve on EAO problems - a feasible MILP
    # declared infeasible, and a MILP 'optimum' 0.2 % below the value of EAO's feasible, integral point (same booleans). Without presolve both
    # instances are solved correctly; the problems here are small enough for that.
    opts = {'time_limit': time_limit, 'presolve': False}
    if integrality is not None and np.any(integrality):
        opts['mip_rel_gap'] = 0.0
    r = milp(c, constraints=cons, bounds=Bounds(np.asarray(l, float), np.asarray(u, float)),
             integrality=integrality, options=opts)
    if r.status == 2:
        # the bundled HiGHS presolve occasionally declares a feasible MILP infeasible (observed: EAO's returned point satisfied every
        # row and bound exactly): an infeasibility verdict counts only if both presolve settings agree
        opts2 = dict(opts, presolve=True)      # (cross-check with the other presolve setting)
        r2 = milp(c, constraints=cons, bounds=Bounds(np.asarray(l, float), np.asarray(u, float)), integrality=integrality, options=opts2)
        if r2.status != 2:
            r = r2
    st = {0: 'optimal', 1: 'other', 2: 'infeasible', 3: 'unbounded', 4: 'other'}.get(r.status, 'other')
    if st == 'infeasible' and integrality is not None and np.any(integrality):
        # third observation (C03 quick, seed 3): HiGHS declared a MILP infeasible with BOTH presolve settings while EAO's returned point satisfied every
        # row, bound and boolean exactly. An infeasibility verdict on a mixed-integer problem therefore needs a second opinion: the same model given
        # to SCIP (pyscipopt, called directly - not through EAO or cvxpy). If SCIP finds an optimum, that is the reference result.
        alt = scip(c, l, u, A, lo, hi, integrality, time_limit)
        if alt is not None:
            return alt
    return {'status': st, 'value': (-r.fun if r.x is not None and r.fun is not None else None), 'x': r.x, 'raw': r.status}


def scip(c, l, u, A, lo, hi, integrality, time_limit=60.):
    """min c.x with pyscipopt; returns a result dict only for a proven optimum or proven infeasibility, else None."""
    try:
        import pyscipopt as ps
    except Exception:
        return None
    try:
        m = ps.Model()
        m.hideOutput()
        m.setParam('limits/time', float(time_limit))
        m.setParam('limits/gap', 0.0)
        n = len(c)
        xs = []
        for j in range(n):
            lj = None if not np.isfinite(l[j]) else float(l[j]); uj = None if not np.isfinite(u[j]) else float(u[j])
            xs.append(m.addVar(lb=lj, ub=uj, vtype='I' if (integrality is not None and integrality[j]) else 'C'))
        if A is not None and A.shape[0] > 0:
            Ac = sp.csr_matrix(A)
            for i in range(Ac.shape[0]):
                row = Ac.getrow(i)
                expr = ps.quicksum(float(v) * xs[int(j)] for j, v in zip(row.indices, row.data))
                if np.isfinite(lo[i]) and np.isfinite(hi[i]) and lo[i] == hi[i]:
                    m.addCons(expr == float(lo[i]))
                else:
                    if np.isfinite(lo[i]):
                        m.addCons(expr >= float(lo[i]))
                    if np.isfinite(hi[i]):
                        m.addCons(expr <= float(hi[i]))
        m.setObjective(ps.quicksum(float(c[j]) * xs[j] for j in range(n) if c[j] != 0), 'minimize')
        m.optimize()
        stt = m.getStatus()
        if stt == 'optimal':
            x = np.array([m.getVal(v) for v in xs])
            return {'status': 'optimal', 'value': float(-np.dot(np.asarray(c, float), x)), 'x': x, 'raw': 'scip'}
        if stt == 'infeasible':
            return {'status': 'infeasible', 'value': None, 'x': None, 'raw': 'scip'}
    except Exception:
        return None
    return None


def lp_row_marginals(op, time_limit=30.):
    """Marginals of the rows of an LP from an independent solver (scipy linprog / HiGHS), or None. Used to GUIDE sampling only
    (degenerate problems have several valid dual solutions); no verdict rests on them."""
    from scipy.optimize import linprog
    A, lo, hi = rows(op)
    if A.shape[0] == 0:
        return None
    eq = np.where(np.isfinite(lo) & np.isfinite(hi) & (lo == hi))[0]
    ub = np.where(np.isfinite(hi) & ~((lo == hi) & np.isfinite(lo)))[0]
    lb = np.where(np.isfinite(lo) & ~((lo == hi) & np.isfinite(hi)))[0]
    A_ub = sp.vstack([A[ub], -A[lb]]).tocsr() if len(ub) + len(lb) else None
    b_ub = np.concatenate([hi[ub], -lo[lb]]) if len(ub) + len(lb) else None
    l = np.asarray(op.l, float); u = np.asarray(op.u, float)
    try:
        r = linprog(np.asarray(op.c, float), A_ub=A_ub, b_ub=b_ub, A_eq=A[eq] if len(eq) else None, b_eq=lo[eq] if len(eq) else None,
                    bounds=np.column_stack([l, u]), method='highs', options={'time_limit': time_limit, 'presolve': False})
    except Exception:
        return None
    if r.status != 0:
        return None
    m = np.full(A.shape[0], np.nan)
    if len(eq):
        m[eq] = r.eqlin.marginals
    return m


def solve_op(op, relax=False, time_limit=60., extra_l=None, extra_u=None):
    A, lo, hi = rows(op)
    n = len(op.c)
    integ = np.zeros(n)
    if not relax:
        integ[bool_vars(op)] = 1
    l = np.array(op.l, dtype=float) if extra_l is None else np.array(extra_l, dtype=float)
    u = np.array(op.u, dtype=float) if extra_u is None else np.array(extra_u, dtype=float)
    if not relax:
        bi = bool_vars(op)          # boolean means {0,1} intersected with [l,u]
        l[bi] = np.ceil(np.maximum(l[bi], 0.) - 1e-9)
        u[bi] = np.floor(np.minimum(u[bi], 1.) + 1e-9)
    if np.any(l > u + 1e-12):
        return {'status': 'infeasible', 'value': None, 'x': None, 'raw': -1}
    return highs(op.c, l, u, A, lo, hi, integ if integ.any() else None, time_limit)


def residuals(op, x):
    """max violation of bounds, rows (by class) and integrality, each scaled as documented in DESIGN 1.2."""
    x = np.asarray(x, dtype=float)
    out = {}
    xs = max(1., float(np.max(np.abs(x))) if len(x) else 1.)
    out['bound'] = float(max(np.max(op.l - x, initial=0.), np.max(x - op.u, initial=0.))) / xs
    A, lo, hi = rows(op)
    per_class = {}
    worst = 0.
    if A.shape[0]:
        ax = A @ x
        scale = 1. + np.where(np.isfinite(lo), np.abs(lo), 0) + np.where(np.isfinite(hi), np.abs(hi), 0) + np.asarray(abs(A).sum(axis=1)).ravel() * xs
        viol = np.maximum(np.maximum(lo - ax, ax - hi), 0.) / scale
        for t in 'ULSN':
            I = np.array([ct == t for ct in op.cType])
            if I.any():
                per_class[t] = float(viol[I].max())
        worst = float(viol.max())
    out['rows'] = worst
    out['rows_by_class'] = per_class
    bi = bool_vars(op)
    out['int'] = float(np.max(np.abs(x[bi] - np.round(x[bi])), initial=0.)) if len(bi) else 0.
    return out


def binding_counts(op, x, tol=1e-7):
    A, lo, hi = rows(op)
    cnt = {}
    if A.shape[0]:
        ax = A @ np.asarray(x, float)
        for t in 'ULSN':
            I = np.array([ct == t for ct in op.cType])
            if I.any():
                bd = (np.abs(ax - np.where(np.isfinite(hi), hi, lo)) <= tol * (1 + np.abs(ax)))
                cnt[t] = int((bd & I).sum())
    return cnt
