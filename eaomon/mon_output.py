"""Monitors at optimize / extract_output return: C01 nodal balance, C04 value accounting, C05 storage physics & reporting."""
import numpy as np
import pandas as pd
from .spec import UNIT_NS


def _isnan(x):
    return isinstance(x, float) and np.isnan(x)


def disp_columns(portf):
    """(asset, node) -> dispatch column name, from the portfolio structure (not parsed from column text)."""
    single = len(portf.nodes) == 1
    out = {}
    for a in portf.assets:
        for n in a.nodes:
            out[(a.name, n.name)] = a.name if single else (a.name + ' (' + n.name + ')')
    return out


# -------------------------------------------------------------------------------------------------
# C01
# -------------------------------------------------------------------------------------------------
def mon_balance_output(case, portf, out, clause='balance.output', skip_nodes=None):
    """dispatch table: per node and step the columns of the node's assets sum to zero."""
    disp = out.get('dispatch')
    if disp is None:
        return False
    cols = disp_columns(portf)
    names = list(cols.values())
    if len(set(names)) != len(names):
        case.inconc('dispatch column names collide'); return False
    missing = [c for c in names if c not in disp.columns]
    case.check(clause + '_columns', not missing, missing=missing[:5])
    if missing:
        return False
    arr = disp.values.astype(float)
    scale = 1. + (np.nanmax(np.abs(arr)) if arr.size else 0.)
    tol = 1e-6 * scale
    nontrivial = False
    worst = (0., None)
    for node in portf.nodes:
        if skip_nodes and node in skip_nodes:
            continue          # (declared as not balanced inside the portfolio)
        cs = list(dict.fromkeys(cols[(a.name, n.name)] for a in portf.assets for n in a.nodes if n.name == node))      # (an asset may list a node twice: one column)
        if not cs:
            continue
        sub = disp[cs].values.astype(float)
        tot = sub.sum(axis=1)
        active = (np.abs(sub) > 1e-6).sum(axis=1)
        if (active >= 2).any():
            nontrivial = True
        k = int(np.argmax(np.abs(tot))) if len(tot) else 0
        if len(tot) and abs(tot[k]) > worst[0]:
            worst = (float(abs(tot[k])), {'node': node, 'step': k, 'time': str(disp.index[k]), 'sum': float(tot[k]),
                                         'columns': {c: float(disp[c].iloc[k]) for c in cs}})
    case.check(clause, worst[0] <= tol, nonvacuous=nontrivial, worst=worst[1], tol=tol)
    case.check(clause + '_finite', bool(np.isfinite(arr).all()), nonvacuous=arr.size > 0)
    return nontrivial


def mon_balance_raw(case, snap, x, clause='balance.raw', skip_nodes=()):
    """Raw variant on (mapping, x): sum x_i*disp_factor over dispatch rows of each (node, step) is zero.
    Internal nodes of structured assets (renamed, type 'i') are checked via their node name."""
    m = snap.mapping
    if m is None or len(m) == 0:
        return False
    x = np.asarray(x, float)
    df = m['disp_factor'].astype(float).fillna(1.).values if 'disp_factor' in m.columns else np.ones(len(m))
    node = m['node'].values
    typ = m['type'].values
    ts = m['time_step'].values
    idx = np.asarray(m.index).astype(int)
    sums = {}
    cnt = {}
    for i, n_, ty, t, f in zip(idx, node, typ, ts, df):
        if n_ is None or _isnan(n_) or n_ == 'nan':
            continue
        internal = (ty == 'i' and '_internal_' in str(n_))
        if not (ty == 'd' or internal):
            continue
        if n_ in skip_nodes:
            continue
        key = (str(n_), int(t))
        sums[key] = sums.get(key, 0.) + x[i] * f
        if abs(x[i] * f) > 1e-6:
            cnt[key] = cnt.get(key, 0) + 1
    if not sums:
        return False
    scale = 1. + float(np.max(np.abs(x))) if len(x) else 1.
    tol = 1e-6 * scale * max(1., float(np.max(np.abs(df))))
    k = max(sums, key=lambda q: abs(sums[q]))
    nontrivial = any(v >= 2 for v in cnt.values())
    case.check(clause, abs(sums[k]) <= tol, nonvacuous=nontrivial, node=k[0], step=k[1], sum=float(sums[k]), tol=tol)
    if any('_internal_' in q[0] for q in sums):
        ki = max([q for q in sums if '_internal_' in q[0]], key=lambda q: abs(sums[q]))
        case.check(clause + '_internal_nodes', abs(sums[ki]) <= tol, nonvacuous=any(cnt.get(q, 0) >= 2 for q in sums if '_internal_' in q[0]),
                   node=ki[0], step=ki[1], sum=float(sums[ki]))
    return nontrivial


# -------------------------------------------------------------------------------------------------
# C04
# -------------------------------------------------------------------------------------------------
def mon_value_accounting(case, portf, res, out, setups, T, clause='value'):
    """setups: list of (portfolio_setup event, [child asset events]) in the order of the concatenated x
    (one entry for a monolithic problem, one per interval for a split problem)."""
    dcf = out.get('DCF')
    if dcf is None or isinstance(res, str):
        return False
    v = float(res.value)
    tol = 1e-6 * (1. + abs(v) + float(np.abs(dcf.values).sum()))
    tot = float(dcf.values.sum())
    case.check(clause + '.total_is_sum_of_dcf', abs(tot - v) <= tol, value=v, sum_dcf=tot)
    try:
        sv = float(out['summary'].loc['value', 'Values'])
        case.check(clause + '.summary_is_value', abs(sv - v) <= 1e-9 * (1 + abs(v)), summary=sv, value=v)
    except Exception as e:
        case.check(clause + '.summary_is_value', False, error=str(e))
    case.check(clause + '.dcf_on_grid', len(dcf) == T and bool(np.isfinite(dcf.values).all()), rows=len(dcf), T=T)
    x = np.asarray(res.x, float)
    own = {}
    pos = 0
    ok_layout = True
    for pev, kids in setups:
        if pev.snap is None or any(k.snap is None for k in kids):
            ok_layout = False; break
        for k in kids:
            n = len(k.snap.c)
            own[k.args['name']] = own.get(k.args['name'], 0.) + float(-np.dot(k.snap.c, x[pos:pos + n]))
            pos += n
    if not ok_layout or pos != len(x):
        case.inconc('variable layout not reconstructible from the recorded set-ups (%d vs %d)' % (pos, len(x)))
        return False
    nontrivial = False
    for a in portf.assets:
        if a.name not in dcf.columns:
            case.check(clause + '.asset_dcf_is_own_cost', False, asset=a.name, error='no DCF column'); continue
        got = float(dcf[a.name].sum())
        want = own.get(a.name, 0.)
        if abs(want) > 1e-6:
            nontrivial = True
        case.check(clause + '.asset_dcf_is_own_cost', abs(got - want) <= tol, nonvacuous=abs(want) > 1e-6, asset=a.name, cls=type(a).__name__,
                   dcf_total=got, minus_c_x=want)
    return nontrivial


# -------------------------------------------------------------------------------------------------
# C05 storage physics from x, and truthful reporting
# -------------------------------------------------------------------------------------------------
def storage_series(snap, x, name, T):
    """charge / discharge volume per fine step of storage `name` from its own dispatch variables (mapping rows)."""
    m = snap.mapping
    m = m[(m['asset'] == name) & (m['type'] == 'd')]
    ch = np.zeros(T); di = np.zeros(T)
    df = m['disp_factor'].astype(float).fillna(1.).values if 'disp_factor' in m.columns else np.ones(len(m))
    for i, t, f in zip(np.asarray(m.index).astype(int), m['time_step'].values.astype(int), df):
        v = float(x[i]) * f           # + = into the node = discharge ; - = out of the node = charge
        if v < 0:
            ch[t] += -v
        else:
            di[t] += v
    steps = np.unique(m['time_step'].values.astype(int))
    return ch, di, steps


def physical_level(a_spec, clock, ch, di, steps):
    """start + eff*charged - discharged + inflow accumulated over the storage's active steps."""
    T = clock.T
    lev = np.zeros(T)
    act = np.zeros(T, bool); act[steps] = True
    delta = a_spec.get('eff_in', 1.) * ch - di + np.where(act, a_spec.get('inflow', 0.) * clock.dt, 0.)
    lev = a_spec.get('start_level', 0.) + np.cumsum(delta)
    return lev
