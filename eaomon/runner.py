"""Check runner: shards -> subprocesses (timeout each), merge, known-finding classification, evidence, verdict.

usage: python -m eaomon.runner <Cxx> quick|thorough [--replay FILE] [--inproc] [--cases N] [--shards N]
exit 0: held on everything explored (KNOWN-FINDING lines allowed); 1: VIOLATION; 2: INCONCLUSIVE
"""
import os, sys, json, time, importlib, subprocess, shutil, traceback, tempfile
from collections import Counter
import numpy as np

from . import env
from .case import Case, jsonable

NSHARDS = {'quick': 12, 'thorough': 16}
PROBE = {}


def load_driver(prop):
    return importlib.import_module('eaomon.drivers.' + prop.lower())


def load_known():
    p = os.path.join(env.VERIF, 'known_findings.json')
    if not os.path.exists(p):
        return {'findings': [], 'fixed': []}
    with open(p) as f:
        return json.load(f)


def run_one(driver, prop, tier, base_seed, idx):
    seed_i = env.case_seed(base_seed, prop, idx)
    rng = np.random.default_rng(seed_i)
    case = Case(prop, idx, seed_i)
    t0 = time.time()
    try:
        driver.run_case(rng, tier, case)
    except Exception as e:                         # a bug in the harness, or an EAO exception the driver did not expect
        if type(e).__name__ in ('AmbiguousTimeError', 'NonExistentTimeError'):
            # the generator produced a naive local time that does not exist / is ambiguous in the grid zone (excluded domain, DESIGN 1.1)
            case.violations = []; case.reject('generated local time not valid in the zone: ' + str(e)[:80]); case.stats['wall_ms'] = int(1000 * (time.time() - t0))
            return case
        case.inconc('harness_error: %s: %s | %s' % (type(e).__name__, str(e)[:200],
                                                     traceback.format_exc().strip().splitlines()[-3:]))
        case.stats['harness_error'] += 1
    case.stats['wall_ms'] = int(1000 * (time.time() - t0))
    return case


def worker_main(argv):
    prop, tier, shard, nshards, base_seed, n_cases, budget, outfile = argv[:8]
    shard, nshards, base_seed, n_cases, budget = int(shard), int(nshards), int(base_seed), int(n_cases), float(budget)
    env.use_repo()
    driver = load_driver(prop)
    if hasattr(driver, 'setup_worker'):
        driver.setup_worker(tier)
    t0 = time.time()
    probing = False
    if shard == 0:
        from . import probe
        probing = probe.start(env.REPO)
    with open(outfile, 'w') as out:
        for idx in range(shard, n_cases, nshards):
            if time.time() - t0 > budget:
                out.write(json.dumps({'prop': prop, 'idx': idx, 'status': 'notrun'}) + '\n')
                continue
            case = run_one(driver, prop, tier, base_seed, idx)
            out.write(case.dumps() + '\n')
            out.flush()
        if hasattr(driver, 'worker_summary'):
            out.write(json.dumps({'prop': prop, 'status': 'summary', 'summary': jsonable(driver.worker_summary())}) + '\n')
        if probing:
            out.write(json.dumps({'prop': prop, 'status': 'probe', 'lines': probe.stop()}) + '\n')
    return 0


def classify(driver, known, rec):
    """-> (list of known finding ids hit, list of unclassified violations)"""
    hit, unknown = [], []
    cls = getattr(driver, 'CLASSIFIERS', {})
    for v in rec.get('violations', []):
        matched = None
        for f in known.get('findings', []):
            if f.get('property') != rec['prop']:
                continue
            fn = cls.get(f.get('classifier'))
            if fn is not None:
                try:
                    if fn(v, rec):
                        matched = f
                        break
                except Exception:
                    pass
        if matched:
            hit.append(matched['id'])
        else:
            unknown.append(v)
    return hit, unknown


def main(argv=None):
    argv = list(sys.argv[1:] if argv is None else argv)
    if argv and argv[0] == '--worker':
        return worker_main(argv[1:])
    prop = argv[0].upper()
    tier = argv[1] if len(argv) > 1 and not argv[1].startswith('--') else os.environ.get('VERIF_TIER', 'quick')
    replay = None; inproc = False; n_override = None; shards_override = None
    i = 1
    while i < len(argv):
        if argv[i] == '--replay':
            replay = argv[i + 1]; i += 1
        elif argv[i] == '--inproc':
            inproc = True
        elif argv[i] == '--cases':
            n_override = int(argv[i + 1]); i += 1
        elif argv[i] == '--shards':
            shards_override = int(argv[i + 1]); i += 1
        i += 1
    base_seed = int(os.environ.get('VERIF_SEED', '0'))
    env.use_repo()
    driver = load_driver(prop)
    known = load_known()
    t_start = time.time()

    if replay:
        with open(replay) as f:
            w = json.load(f)
        tier = w.get('tier', tier)
        if hasattr(driver, 'setup_worker'):
            driver.setup_worker(tier)
        case = run_one(driver, prop, tier, int(w['base_seed']), int(w['idx']))
        rec = case.to_record()
        print(json.dumps({k: rec[k] for k in ('status', 'violations', 'inconclusive', 'rejected', 'sample')}, indent=1, default=str)[:6000])
        hit, unknown = classify(driver, known, rec)
        for h in sorted(set(hit)):
            print('KNOWN-FINDING: property=%s %s' % (prop, h))
        if unknown:
            print('VIOLATION property=%s replay=%s' % (prop, replay))
            return 1
        return 0

    n_cases = n_override or driver.CASES[tier]
    nshards = shards_override or min(NSHARDS[tier], n_cases)
    budget = getattr(driver, 'BUDGET_S', {'quick': 150, 'thorough': 1500})[tier]
    records = []
    summaries = []
    if inproc:
        if hasattr(driver, 'setup_worker'):
            driver.setup_worker(tier)
        for idx in range(n_cases):
            records.append(json.loads(run_one(driver, prop, tier, base_seed, idx).dumps()))
        if hasattr(driver, 'worker_summary'):
            summaries.append(jsonable(driver.worker_summary()))
    else:
        tmpd = tempfile.mkdtemp(prefix='run_%s_' % prop, dir=os.path.join(env.VERIF, 'replays')) \
            if os.path.isdir(os.path.join(env.VERIF, 'replays')) else tempfile.mkdtemp(prefix='run_%s_' % prop)
        procs = []
        penv = dict(os.environ)
        penv['PYTHONHASHSEED'] = '0'
        penv['PYTHONPATH'] = env.VERIF + os.pathsep + penv.get('PYTHONPATH', '')
        penv['OMP_NUM_THREADS'] = '1'; penv['OPENBLAS_NUM_THREADS'] = '1'; penv['MKL_NUM_THREADS'] = '1'
        for s in range(nshards):
            of = os.path.join(tmpd, 'shard_%d.jsonl' % s)
            cmd = [sys.executable, '-m', 'eaomon.runner', '--worker', prop, tier, str(s), str(nshards), str(base_seed),
                   str(n_cases), str(budget), of]
            procs.append((s, of, subprocess.Popen(cmd, env=penv, cwd=env.VERIF, stdout=subprocess.DEVNULL,
                                                  stderr=open(os.path.join(tmpd, 'err_%d.txt' % s), 'w'))))
        deadline = time.time() + budget * 1.5 + 120          # generous watchdog; firing = inconclusive, never a violation
        crashed = []
        for s, of, p in procs:
            try:
                p.wait(timeout=max(1., deadline - time.time()))
            except subprocess.TimeoutExpired:
                p.kill(); crashed.append((s, 'watchdog'))
            if p.returncode not in (0, None) and (s, 'watchdog') not in crashed:
                err = open(os.path.join(tmpd, 'err_%d.txt' % s)).read()[-600:]
                crashed.append((s, 'exit %s: %s' % (p.returncode, err)))
            if os.path.exists(of):
                for line in open(of):
                    line = line.strip()
                    if not line:
                        continue
                    try:
                        r = json.loads(line)
                    except Exception:
                        continue
                    if r.get('status') == 'summary':
                        summaries.append(r['summary'])
                    elif r.get('status') == 'probe':
                        PROBE.update(r.get('lines') or {})
                    else:
                        records.append(r)
        shutil.rmtree(tmpd, ignore_errors=True)
        for s, why in crashed:
            records.append({'prop': prop, 'idx': -1, 'status': 'inconclusive', 'inconclusive': ['worker %d: %s' % (s, why)],
                            'stats': {'worker_crash': 1}})

    if (tier == 'thorough' or os.environ.get('EAOMON_SUITE')) and getattr(driver, 'SUITE_UNDER_MONITORS', False):
        records += suite_under_monitors(prop)
    return finish(driver, prop, tier, base_seed, records, summaries, known, time.time() - t_start)


def suite_under_monitors(prop, timeout=1500):
    """The repository's own test suite as an extra workload: every test runs with the passive monitors of `prop` attached."""
    outf = tempfile.mktemp(prefix='suite_%s_' % prop, suffix='.jsonl', dir=os.path.join(env.VERIF, 'replays') if os.path.isdir(os.path.join(env.VERIF, 'replays')) else None)
    penv = dict(os.environ)
    penv.update({'EAOMON_PROP': prop, 'EAOMON_OUT': outf, 'PYTHONHASHSEED': '0', 'PYTHONPATH': env.VERIF + os.pathsep + penv.get('PYTHONPATH', ''), 'EAO_REPO': env.REPO})
    recs = []
    try:
        subprocess.run([sys.executable, '-m', 'pytest', '-q', '-p', 'no:cacheprovider', '-p', 'eaomon.pytest_plugin', '--timeout=900', 'tests'],
                       cwd=env.REPO, env=penv, stdout=subprocess.DEVNULL, stderr=subprocess.DEVNULL, timeout=timeout)
    except subprocess.TimeoutExpired:
        recs.append({'prop': prop, 'idx': -2, 'status': 'inconclusive', 'inconclusive': ['suite under monitors: watchdog'], 'stats': {}})
    if os.path.exists(outf):
        for line in open(outf):
            try:
                recs.append(json.loads(line))
            except Exception:
                pass
        os.remove(outf)
    return recs


def finish(driver, prop, tier, base_seed, records, summaries, known, wall):
    ran = [r for r in records if r.get('status') not in ('notrun',)]
    notrun = [r for r in records if r.get('status') == 'notrun']
    evaluated = Counter(); nonvac = Counter(); features = Counter(); events = Counter(); stats = Counter()
    status = Counter()
    keys_nontrivial = set()
    samples = []
    inconc_reasons = Counter(); reject_reasons = Counter()
    violating = []
    known_hit = Counter()
    for r in ran:
        status[r['status']] += 1
        for k, v in r.get('evaluated', {}).items(): evaluated[k] += v
        for k, v in r.get('nonvacuous', {}).items(): nonvac[k] += v
        for k, v in r.get('features', {}).items(): features[k] += v
        for k, v in r.get('events', {}).items(): events[k] += v
        for k, v in r.get('stats', {}).items(): stats[k] += v
        if r.get('nontrivial') and r.get('key'):
            keys_nontrivial.add(r['key'])
        if r.get('sample') is not None and len(samples) < 4 and r.get('nontrivial'):
            samples.append(r['sample'])
        for x in r.get('inconclusive', []) or []:
            inconc_reasons[x[:80]] += 1
        if r.get('rejected'):
            reject_reasons[r['rejected'][:80]] += 1
        if r['status'] == 'violated':
            hit, unknown = classify(driver, known, r)
            for h in hit: known_hit[h] += 1
            if unknown:
                violating.append((r, unknown))
    if not samples:
        samples = [r['sample'] for r in ran if r.get('sample') is not None][:3]

    # ---- replay files for unclassified violations
    lines = []
    rdir = os.path.join(env.VERIF, 'replays')
    os.makedirs(rdir, exist_ok=True)
    for r, unknown in violating[:10]:
        path = os.path.join(rdir, '%s_%s_seed%d_case%d.json' % (prop, tier, base_seed, r['idx']))
        with open(path, 'w') as f:
            json.dump({'property': prop, 'tier': tier, 'base_seed': base_seed, 'idx': r['idx'], 'violations': unknown,
                       'sample': r.get('sample'), 'spec': r.get('spec')}, f, indent=1, default=str)
        lines.append('VIOLATION property=%s replay=%s' % (prop, path))
        for v in unknown[:2]:
            print('  witness: ' + json.dumps(v, default=str)[:700])
    for f in known.get('findings', []):
        if f.get('property') == prop and known_hit.get(f['id']):
            print('KNOWN-FINDING: property=%s %s: %s (observed in %d cases)' % (prop, f['id'], f.get('what', ''), known_hit[f['id']]))

    # ---- sufficiency (held vs inconclusive)
    reasons = []
    n_ran = len(ran)
    mn = getattr(driver, 'MIN_NONVACUOUS', {})
    min_nonvac = dict(mn.get('quick', {}))
    if tier != 'quick' or len(records) != driver.CASES.get('quick', len(records)):
        # thresholds are calibrated on the quick tier; other case counts scale them (with a 40 % margin)
        ratio = max(0.0, 0.6 * len(records) / float(driver.CASES['quick']))
        min_nonvac = {k: int(v * ratio) for k, v in min_nonvac.items()}
    for clause, need in min_nonvac.items():
        if nonvac.get(clause, 0) < need:
            reasons.append('clause %s evaluated non-vacuously %d < %d times' % (clause, nonvac.get(clause, 0), need))
    if len(keys_nontrivial) < 2:
        reasons.append('fewer than 2 distinct non-trivial cases')
    bad = status.get('inconclusive', 0) + status.get('rejected', 0) + len(notrun)
    max_bad = getattr(driver, 'MAX_UNDECIDED', 0.30)
    if n_ran + len(notrun) and bad / float(n_ran + len(notrun)) > max_bad:
        reasons.append('%d of %d cases rejected/inconclusive/not run' % (bad, n_ran + len(notrun)))
    if stats.get('harness_error', 0) > 0:
        reasons.append('%d harness errors: %s' % (stats['harness_error'], [k for k in inconc_reasons if k.startswith('harness_error')][:3]))
    if stats.get('worker_crash', 0) > 0:
        reasons.append('%d worker(s) crashed or hit the watchdog' % stats['worker_crash'])

    # ---- evidence
    cov = {
        'evaluations': n_ran,
        'distinct_nontrivial': len(keys_nontrivial),
        'rule': getattr(driver, 'RULE', ''),
        'samples': samples,
        'exhaustive': False,
        'verdicts': dict(status), 'not_run': len(notrun),
        'clauses': {k: {'evaluated': evaluated[k], 'nonvacuous': nonvac.get(k, 0)} for k in sorted(evaluated)},
        'events': dict(events), 'features_seen': dict(features),
        'rejected_reasons': dict(reject_reasons.most_common(8)),
        'inconclusive_reasons': dict(inconc_reasons.most_common(8)),
        'known_findings_hit': dict(known_hit),
        'stats': dict(stats),
        'worker_summaries': summaries[:2],
        'sufficiency_failures': reasons,
    }
    if hasattr(driver, 'merge_summaries'):
        cov['summary'] = jsonable(driver.merge_summaries(summaries))
    if PROBE:
        try:
            from . import probe
            props = [json.loads(l) for l in open(os.path.join(env.VERIF, 'properties.jsonl'))]
            me = [p for p in props if p['id'] == prop][0]
            rep = probe.anchor_report(me, PROBE, env.REPO)
            cov['anchor_lines'] = rep
            cov['anchor_lines_note'] = 'lines of the property\'s anchor ranges executed by the workload of shard 0 (line numbers of the given anchors; the fix commits shifted some ranges by a few lines)'
            # gate: shard 0 sees 1/n of the cases and the given line numbers have drifted by a few lines, so single ranges may legitimately show 0;
            # the verdict is inconclusive only if the workload executed NONE of the property's mechanism lines
            cov['anchor_ranges_unreached_in_shard0'] = ['%s:%s' % (a['file'], a['lines']) for a in rep if a['executable'] > 0 and a['executed'] == 0]
            if rep and sum(a['executed'] for a in rep) == 0:
                reasons.append('none of the anchor mechanism lines was executed by the workload')
        except Exception as e:
            cov['anchor_lines_error'] = str(e)[:200]
    ev = {'property_id': prop, 'tier': tier, 'seed': base_seed, 'level': 'exploration', 'coverage': cov,
          'assumptions': list(getattr(driver, 'ASSUMPTIONS', [])), 'wall_s': round(wall, 2),
          'violations': len(violating)}
    if not os.environ.get('EAO_NO_EVIDENCE'):        # (set by the mutant self-tests: they must not overwrite the evidence of /repo)
        os.makedirs(os.path.join(env.VERIF, 'evidence'), exist_ok=True)
        with open(os.path.join(env.VERIF, 'evidence', prop + '.json'), 'w') as f:
            json.dump(jsonable(ev), f, indent=1, default=str)

    print('%s %s seed=%d: cases=%d %s nontrivial_distinct=%d wall=%.1fs' % (prop, tier, base_seed, n_ran, dict(status), len(keys_nontrivial), wall))
    print('  clauses (evaluated/non-vacuous): ' + ', '.join('%s=%d/%d' % (k, evaluated[k], nonvac.get(k, 0)) for k in sorted(evaluated)))
    if lines:
        for ln in lines:
            print(ln)
        return 1
    if reasons:
        print('INCONCLUSIVE property=%s reason=%s' % (prop, '; '.join(reasons)))
        return 2
    print('HELD property=%s on %d executions (%d distinct non-trivial)' % (prop, n_ran, len(keys_nontrivial)))
    return 0


if __name__ == '__main__':
    sys.exit(main())
