"""Class-level wrappers around the real EAO functions: record call/return events at the API boundary.

Nothing in /repo is edited. Wrappers are installed once per process on the class objects (every
`from m import C` reference shares the class object); module-level functions are patched in every
eaopack module that bound them. While no Recorder is active the wrappers only forward the call.
Every wrapper counts its evaluations (zero evaluations => the monitors that need it are inconclusive).
"""
import sys, contextlib
from collections import Counter
from .canon import Snap

_active = None
_installed = False
ORIG = {}


class Event:
    __slots__ = ('kind', 'id', 'parent', 'obj', 'args', 'ret', 'exc', 'snap', 'extra')

    def __init__(self, kind, id, parent, obj=None, args=None):
        self.kind = kind; self.id = id; self.parent = parent; self.obj = obj; self.args = args or {}
        self.ret = None; self.exc = None; self.snap = None; self.extra = {}


class Recorder:
    def __init__(self):
        self.events = []
        self.stack = []          # ids of open portfolio-/asset-level frames
        self.depth = {}          # id(object) -> nesting depth of setup calls through the class hierarchy
        self.counts = Counter()
        self.paused = False

    def new(self, kind, obj=None, args=None):
        ev = Event(kind, len(self.events), self.stack[-1] if self.stack else None, obj, args)
        self.events.append(ev)
        self.counts[kind] += 1
        return ev

    def of(self, kind):
        return [e for e in self.events if e.kind == kind]

    def children(self, ev, kind=None):
        return [e for e in self.events if e.parent == ev.id and (kind is None or e.kind == kind)]


@contextlib.contextmanager
def recording():
    """Activate a fresh Recorder for the duration of the block."""
    global _active
    install()
    prev = _active
    rec = Recorder()
    _active = rec
    try:
        yield rec
    finally:
        _active = prev


@contextlib.contextmanager
def paused():
    """Temporarily stop recording (used by oracles that call EAO themselves)."""
    global _active
    prev = _active
    _active = None
    try:
        yield
    finally:
        _active = prev


def _is_op(x):
    return hasattr(x, 'c') and hasattr(x, 'mapping') and hasattr(x, 'l')


def _wrap_asset_setup(cls):
    orig = cls.__dict__['setup_optim_problem']
    ORIG[(cls.__name__, 'setup_optim_problem')] = orig

    def setup_optim_problem(self, *a, **k):
        rec = _active
        if rec is None:
            return orig(self, *a, **k)
        key = id(self)
        d = rec.depth.get(key, 0)
        if d > 0:                                   # inner call through the class hierarchy: not a boundary
            rec.depth[key] = d + 1
            try:
                return orig(self, *a, **k)
            finally:
                rec.depth[key] = d
        costs_only = k.get('costs_only', a[2] if len(a) > 2 else False)
        tg = k.get('timegrid', a[1] if len(a) > 1 else None)
        ev = rec.new('asset_setup', self, {'costs_only': bool(costs_only), 'timegrid_given': tg is not None,
                                            'cls': type(self).__name__, 'name': getattr(self, 'name', None)})
        rec.depth[key] = 1
        rec.stack.append(ev.id)
        try:
            ret = orig(self, *a, **k)
        except BaseException as e:
            ev.exc = e
            raise
        finally:
            rec.depth[key] = 0
            rec.stack.pop()
        ev.ret = ret
        if _is_op(ret):
            ev.snap = Snap(ret)
            tgr = getattr(self, 'timegrid', None)
            if tgr is not None:
                r = getattr(tgr, 'restricted', None)
                ev.extra['T'] = tgr.T
                ev.extra['restricted_I'] = None if r is None else list(map(int, r.I))
        return ret
    setup_optim_problem.__wrapped__ = orig
    setup_optim_problem.__doc__ = orig.__doc__
    cls.setup_optim_problem = setup_optim_problem


def _wrap_method(cls, name, kind, snap_self=False, frame=False, argnames=()):
    orig = cls.__dict__[name]
    ORIG[(cls.__name__, name)] = orig

    def wrapper(self, *a, **k):
        rec = _active
        if rec is None:
            return orig(self, *a, **k)
        args = dict(k)
        for i, n in enumerate(argnames):
            if i < len(a):
                args[n] = a[i]
        ev = rec.new(kind, self, args)
        if snap_self:
            try:
                ev.snap = Snap(self)
            except Exception:
                ev.snap = None
        if frame:
            rec.stack.append(ev.id)
        try:
            ret = orig(self, *a, **k)
        except BaseException as e:
            ev.exc = e
            raise
        finally:
            if frame:
                rec.stack.pop()
        ev.ret = ret
        if kind in ('portfolio_setup',) and _is_op(ret):
            ev.snap = Snap(ret)
        return ret
    wrapper.__wrapped__ = orig
    wrapper.__doc__ = orig.__doc__
    wrapper.__name__ = name
    setattr(cls, name, wrapper)


def _snap_grid(tg):
    import types, numpy as np
    ns = types.SimpleNamespace()
    for k in ('freq', 'main_time_unit', 'tz', 'start', 'end', 'T'):
        if hasattr(tg, k):
            setattr(ns, k, getattr(tg, k))
    for k in ('I', 'timepoints', 'dt', 'Dt', 'discount_factors'):
        if hasattr(tg, k):
            v = getattr(tg, k)
            setattr(ns, k, v.copy() if hasattr(v, 'copy') else v)
    if hasattr(tg, 'I_minor_in_major'):
        ns.I_minor_in_major = [np.array(x).copy() for x in tg.I_minor_in_major]
    return ns


def _wrap_timegrid(cls):
    orig = cls.__dict__['__init__']
    ORIG[('Timegrid', '__init__')] = orig

    def __init__(self, *a, **k):
        rec = _active
        if rec is None:
            return orig(self, *a, **k)
        names = ('start', 'end', 'freq', 'main_time_unit', 'ref_timegrid', 'timezone')
        args = dict(k)
        for i, n in enumerate(names):
            if i < len(a):
                args[n] = a[i]
        ev = rec.new('timegrid', self, args)
        try:
            orig(self, *a, **k)
        except BaseException as e:
            ev.exc = e
            raise
        # the invariant is about the state at __init__ return: snapshot it (grids are shared and mutated later: set_wacc, re-based I, ...)
        ev.ret = _snap_grid(self)
        ref = args.get('ref_timegrid')
        if ref is not None:
            ev.args = dict(args, ref_timegrid=_snap_grid(ref))
    __init__.__wrapped__ = orig
    cls.__init__ = __init__


def _wrap_function(modname, fname, kind, argnames=()):
    mod = sys.modules[modname]
    orig = getattr(mod, fname)
    ORIG[(modname, fname)] = orig

    def wrapper(*a, **k):
        rec = _active
        if rec is None:
            return orig(*a, **k)
        args = dict(k)
        for i, n in enumerate(argnames):
            if i < len(a):
                args[n] = a[i]
        ev = rec.new(kind, None, args)
        rec.stack.append(ev.id)
        try:
            ret = orig(*a, **k)
        except BaseException as e:
            ev.exc = e
            raise
        finally:
            rec.stack.pop()
        ev.ret = ret
        return ret
    wrapper.__wrapped__ = orig
    wrapper.__name__ = fname
    wrapper.__doc__ = orig.__doc__
    for mn, m in list(sys.modules.items()):
        if mn.startswith('eaopack') and m is not None and getattr(m, fname, None) is orig:
            setattr(m, fname, wrapper)


def _wrap_cvx_solve():
    """Added observability for C03's status handling: the status the solver itself reported for the problem EAO handed over
    (cvxpy.Problem.solve is the boundary between EAO and the solver). Recorded on the enclosing optimize event."""
    import cvxpy as CVX
    orig = CVX.Problem.solve
    ORIG[('cvxpy.Problem', 'solve')] = orig

    def solve(self, *a, **k):
        rec = _active
        if rec is None:
            return orig(self, *a, **k)
        try:
            return orig(self, *a, **k)
        finally:
            rec.counts['cvx_solve'] += 1
            if rec.stack:
                top = rec.events[rec.stack[-1]]
                if top.kind == 'optimize':
                    top.extra['cvx_status'] = getattr(self, 'status', None)
    solve.__wrapped__ = orig
    CVX.Problem.solve = solve


def install():
    """Attach all wrappers (idempotent)."""
    global _installed
    if _installed:
        return
    import eaopack  # noqa: F401  (imports all submodules)
    import eaopack.assets as EA
    import eaopack.portfolio as EP
    import eaopack.optimization as EO
    import eaopack.basic_classes as EB
    import eaopack.io, eaopack.serialization, eaopack.stoch_lin_prog   # noqa: F401

    def subclasses(c):
        out = [c]
        for s in c.__subclasses__():
            out.extend(subclasses(s))
        return out
    for cls in dict.fromkeys(subclasses(EA.Asset)):
        if 'setup_optim_problem' in cls.__dict__:
            _wrap_asset_setup(cls)
    _wrap_method(EP.Portfolio, 'setup_optim_problem', 'portfolio_setup', frame=True,
                 argnames=('prices', 'timegrid', 'costs_only', 'skip_nodes', 'fix_time_window'))
    _wrap_method(EP.Portfolio, 'setup_split_optim_problem', 'split_setup', frame=True,
                 argnames=('prices', 'timegrid', 'interval_size', 'skip_nodes', 'fix_time_window'))
    _wrap_method(EO.OptimProblem, 'optimize', 'optimize', snap_self=True, frame=True,
                 argnames=('target', 'samples', 'interface', 'solver', 'make_soft_problem', 'solver_params'))
    _wrap_method(EO.SplitOptimProblem, 'optimize', 'split_optimize', frame=True)
    _wrap_timegrid(EB.Timegrid)
    _wrap_cvx_solve()
    _wrap_function('eaopack.io', 'extract_output', 'extract', argnames=('portf', 'op', 'res', 'prices'))
    _wrap_function('eaopack.serialization', 'to_json', 'to_json', argnames=('obj', 'file_name'))
    _wrap_function('eaopack.serialization', 'load_from_json', 'load_from_json', argnames=('json_str', 'file_name'))
    _wrap_function('eaopack.stoch_lin_prog', 'make_slp', 'make_slp',
                   argnames=('optim_problem', 'portf', 'timegrid', 'start_future', 'samples'))
    _installed = True
