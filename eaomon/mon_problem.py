"""Monitors on assembled problems: C07 (mapping is a faithful description) and C03 (returned point feasible/optimal)."""
import numpy as np
import pandas as pd
import scipy.sparse as sp
from . import solve
from .canon import mapping_rows


def _isnan(x):
    return isinstance(x, float) and np.isnan(x)


def _finite_ok(v):
    v = np.asarray(v, dtype=float)
    return not np.isnan(v).any()


# -------------------------------------------------------------------------------------------------
# C07 asset level
# -------------------------------------------------------------------------------------------------
def mon_mapping_asset(case, ev, prefix='asset'):
    s = ev.snap
    if s is None:
        return
    who = {'asset': ev.args.get('name'), 'cls': ev.args.get('cls')}
    n = len(s.c)
    case.event('mon_mapping_asset')
    case.check(prefix + '.dims_vectors', len(s.l) == n and len(s.u) == n, **who, n=n, nl=len(s.l), nu=len(s.u))
    nrows = 0
    if s.A is not None and s.A.shape[0] > 0:
        nrows = s.A.shape[0]
        case.check(prefix + '.dims_matrix', s.A.shape[1] == n and s.b is not None and len(s.b) == nrows and len(s.cType or '') == nrows,
                   **who, A=list(s.A.shape), n=n, nb=None if s.b is None else len(s.b), ncType=len(s.cType or ''))
        case.check(prefix + '.no_nan', _finite_ok(s.A.data) and _finite_ok(s.b), **who, what='A/b')
        case.check(prefix + '.ctype_letters', set(s.cType) <= set('ULSN'), **who, cType=(s.cType or '')[:40])
    case.check(prefix + '.no_nan', _finite_ok(s.c) and _finite_ok(s.l) and _finite_ok(s.u), **who, what='c/l/u')
    if len(s.l) == n and len(s.u) == n and n:
        case.check(prefix + '.l_le_u', bool(np.all(s.l <= s.u + 1e-12)), **who,
                   worst=float(np.max(s.l - s.u)) if n else 0.)
    m = s.mapping
    if m is None or len(m) == 0:
        if n:
            # variables but no mapping rows at all: all must be inert
            inert = bool(np.all(s.c == 0)) and (s.A is None or s.A.nnz == 0)
            case.check(prefix + '.unmapped_inert', inert, **who, n=n)
        return
    idx = np.asarray(m.index)
    ok_int = np.issubdtype(idx.dtype, np.integer) or all(float(i).is_integer() for i in idx)
    case.check(prefix + '.index_in_range', bool(ok_int and idx.min() >= 0 and idx.max() < n), **who, n=n,
               imin=int(idx.min()), imax=int(idx.max()))
    T = ev.extra.get('T')
    ts = np.asarray(m['time_step'])
    if T is not None:
        case.check(prefix + '.steps_on_grid', bool(np.all(ts >= 0) and np.all(ts < T) and np.all(ts == np.round(ts))), **who, T=T,
                   tmin=float(ts.min()), tmax=float(ts.max()))
    # every row names a step of the asset's own window: the steps of the restricted grid the asset held when its set-up returned (all kinds of
    # rows - dispatch, internal, booleans; assets with an own coarser frequency and wrappers around other assets have other step sets)
    rI = ev.extra.get('restricted_I')
    if rI is not None and ev.args.get('cls') not in ('StructuredAsset', 'LinkedAsset', 'ScaledAsset') and not getattr(ev.obj, 'freq', None):
        inside = set(int(t) for t in ts) <= set(rI)
        case.check(prefix + '.steps_inside_own_window', inside, nonvacuous=(T is not None and len(rI) < T), **who, outside=sorted(set(int(t) for t in ts) - set(rI))[:6],
                   window_steps=[min(rI), max(rI)] if rI else [])
    # unmapped variables must be inert
    if ok_int and idx.max() < n:
        mapped = np.zeros(n, bool); mapped[idx.astype(int)] = True
        un = np.where(~mapped)[0]
        if len(un):
            case.feature('has_unmapped_vars')
            colnz = np.zeros(n, bool)
            if s.A is not None and s.A.nnz:
                colnz[np.unique(s.A.tocoo().col)] = True
            case.check(prefix + '.unmapped_inert', bool(np.all(s.c[un] == 0) and not colnz[un].any()), **who, unmapped=list(map(int, un[:10])),
                       c=list(s.c[un][:10]))
    # the rows of one variable agree on what the variable is (asset, name)
    if 'var_name' in m.columns and 'type' in m.columns and len(m):
        ident = {}
        for i_, a_, vn_, ty_ in zip(m.index, m['asset'] if 'asset' in m.columns else [''] * len(m), m['var_name'], m['type']):
            ident.setdefault(int(i_), set()).add((str(a_), str(vn_)))          # (the kind may differ per row: an on-flag has an internal row and a fuel-dispatch row)
        mixed = [j for j, v_ in ident.items() if len(v_) > 1]
        case.check(prefix + '.rows_of_a_variable_agree', not mixed, **who, first=[{'variable': j, 'rows': sorted(ident[j])[:3]} for j in mixed[:2]])
    obj = ev.obj
    if obj is not None and 'asset' in m.columns:
        case.check(prefix + '.names_asset', bool((m['asset'] == obj.name).all()), **who, found=list(map(str, m['asset'].unique()[:5])))
        nn = set(obj.node_names)
        nodes = [x for x in m['node'].unique() if not (x is None or _isnan(x) or x == 'nan')]
        okn = all((x in nn) or str(x).startswith(obj.name + '_internal_') for x in nodes)
        case.check(prefix + '.names_node', okn, **who, nodes=list(map(str, nodes[:6])), asset_nodes=sorted(nn))
        # dispatch rows carry a node
        d = m[m['type'] == 'd']
        case.check(prefix + '.dispatch_has_node', bool(d['node'].notnull().all()) and not (d['node'] == 'nan').any(), nonvacuous=len(d) > 0, **who)
    # assets whose single dispatch variable acts in several nodes (transport: -1 / +efficiency; multi-commodity: one factor per node):
    # every variable must carry the same time steps in each of the asset's nodes
    if ev.args.get('cls') in ('Transport', 'ExtendedTransport', 'MultiCommodityContract') and obj is not None and len(obj.nodes) > 1:
        d = m[m['type'] == 'd']
        per_node = {}
        for idx, node, t in zip(d.index, d['node'], d['time_step']):
            per_node.setdefault(str(node), {}).setdefault(int(idx), []).append(int(t))
        sets = [{k: sorted(set(v)) for k, v in dd.items()} for dd in per_node.values()]        # (a node may be listed twice: steps as a set)
        okm = len(per_node) == len(set(obj.node_names)) and all(x == sets[0] for x in sets[1:])
        bad = None
        if not okm and len(sets) > 1:
            for k in sets[0]:
                if any(x.get(k) != sets[0][k] for x in sets[1:]):
                    bad = {'variable': k, 'steps_per_node': {n: dd.get(k) for n, dd in zip(per_node, sets)}}; break
        case.check(prefix + '.multi_node_rows_consistent', okm, nonvacuous=len(d) > 0, **who, bad=bad)
    if ev.args.get('cls') == 'Storage' and obj is not None and len(obj.nodes) == 2 and 'var_name' in m.columns:
        # storage taking the commodity in its first node and giving it out in the second: charge rows name the first, discharge rows the second node
        d = m[m['type'] == 'd']
        n_in = set(map(str, d.loc[d['var_name'] == 'disp_in', 'node'])); n_out = set(map(str, d.loc[d['var_name'] == 'disp_out', 'node']))
        case.check(prefix + '.two_node_storage_rows', n_in <= {obj.nodes[0].name} and n_out <= {obj.nodes[1].name}, nonvacuous=len(n_in | n_out) > 0 and obj.nodes[0].name != obj.nodes[1].name,
                   **who, charge_nodes=sorted(n_in), discharge_nodes=sorted(n_out), declared=[obj.nodes[0].name, obj.nodes[1].name])
    if 'disp_factor' in m.columns:
        df = np.asarray(m['disp_factor'], dtype=float)
        d_rows = np.asarray(m['type'] == 'd')
        # NaN disp_factor means 1 (filled by the portfolio); inf never
        case.check(prefix + '.no_nan', not np.isinf(df[~np.isnan(df)]).any(), **who, what='disp_factor inf')


def derived_internal_steps(s):
    """{internal variable -> time step} read off the asset's own rows, independently of what the mapping says about that variable: a row whose
    dispatch variables all belong to ONE step ties the internal variables it contains to that step; a variable counts only if all such rows
    agree (variables tied to several steps - start flags under a profile - are left out)."""
    m = s.mapping
    if s.A is None or m is None or 'type' not in m.columns:
        return {}
    n = len(s.c)
    dsteps = {}; internal = set()
    for idx, ty, t in zip(m.index, m['type'], m['time_step']):
        if ty == 'd':
            dsteps.setdefault(int(idx), set()).add(int(t))
        elif ty == 'i':
            internal.add(int(idx))
    internal -= set(dsteps)
    if not internal:
        return {}
    A = s.A.tocsr()
    cand = {}
    for r in range(A.shape[0]):
        cols = A.indices[A.indptr[r]:A.indptr[r + 1]]
        D = [int(c) for c in cols if int(c) in dsteps]; I_ = [int(c) for c in cols if int(c) in internal]
        if not D or not I_:
            continue
        st = set()
        for c in D:
            st |= dsteps[c]
        if len(st) == 1:
            for c in I_:
                cand.setdefault(c, set()).add(next(iter(st)))
    return {c: next(iter(v)) for c, v in cand.items() if len(v) == 1}


def mon_internal_steps(case, ev, clause='asset.internal_variable_step_matches_its_rows'):
    s = ev.snap
    if s is None or s.mapping is None or len(s.c) == 0 or ev.args.get('cls') not in ('Storage',):      # (plants tie a shutdown / start flag to the dispatch of neighbouring steps: no unique reading there)
        return
    der = derived_internal_steps(s)
    if not der:
        return
    m = s.mapping
    have = {}
    for idx, t in zip(m.index, m['time_step']):
        have.setdefault(int(idx), set()).add(int(t))
    bad = [(c, sorted(have.get(c, [])), t) for c, t in der.items() if have.get(c) != {t}]
    case.check(clause, not bad, asset=ev.args.get('name'), cls=ev.args.get('cls'), n_internal=len(der),
               first_bad=[{'variable': c, 'mapping_steps': h, 'step_of_its_dispatch_rows': t} for c, h, t in bad[:3]])


# -------------------------------------------------------------------------------------------------
# C07 portfolio level (history based: the assets' own sub-problems recorded while the portfolio call ran)
# -------------------------------------------------------------------------------------------------
def mon_mapping_portfolio(case, pev, children, prefix='portfolio'):
    g = pev.snap
    if g is None or pev.args.get('costs_only'):
        return
    kids = [c for c in children if c.snap is not None]
    if len(kids) != len(children):
        return
    case.event('mon_mapping_portfolio')
    fixed = pev.args.get('fix_time_window') is not None
    n = len(g.c)
    sizes = [len(c.snap.c) for c in kids]
    case.check(prefix + '.n_is_sum_of_assets', n == sum(sizes) and len(g.l) == n and len(g.u) == n and (g.A is None or g.A.shape[1] == n),
               n=n, sizes=sizes)
    if n != sum(sizes):
        return
    off = np.concatenate(([0], np.cumsum(sizes)))
    gm = g.mapping
    ok_all = True
    # ---- per asset: vectors, mapping rows, embedded row block
    row0 = 0
    A = g.A.tocsr() if g.A is not None else sp.csr_matrix((0, n))
    for k, c in enumerate(kids):
        s = c.snap
        name = c.args.get('name')
        o = int(off[k]); nx = sizes[k]
        who = {'asset': name, 'cls': c.args.get('cls'), 'offset': o, 'n_asset': nx}
        okc = np.array_equal(g.c[o:o + nx], s.c)
        okb = fixed or (np.array_equal(g.l[o:o + nx], s.l) and np.array_equal(g.u[o:o + nx], s.u))
        case.check(prefix + '.asset_vectors_embedded', okc and okb, nonvacuous=nx > 0, **who)
        # mapping rows: local (j, attrs) <-> global (offset + j, attrs)
        loc = mapping_rows(s.mapping) if s.mapping is not None and len(s.mapping) else []
        glo = [] if gm is None or len(gm) == 0 else mapping_rows(gm[gm['asset'] == name])
        want = sorted([(r[0] + o,) + r[1:] for r in loc], key=repr)
        got = sorted(glo, key=repr)
        same = len(want) == len(got) and all(a[:6] == b[:6] and abs(a[6] - b[6]) <= 1e-12 * (1 + abs(a[6])) and a[7] == b[7] for a, b in zip(want, got))
        first_bad = None
        if not same:
            for a, b in zip(want, got):
                if a != b:
                    first_bad = [a, b]; break
        case.check(prefix + '.mapping_rows_point_to_own_variables', same, nonvacuous=len(loc) > 0, **who, n_local=len(want), n_global=len(got), first_bad=first_bad)
        if gm is not None and len(gm) and 'index_assets' in gm.columns and len(loc):
            mine = gm[gm['asset'] == name]
            okidx = bool(np.all(np.asarray(mine.index) == np.asarray(mine['index_assets']) + o))
            case.check(prefix + '.index_is_offset_plus_local', okidx, **who)
        # row block
        if s.A is not None and s.A.shape[0] > 0:
            r = s.A.shape[0]
            blk = A[row0:row0 + r, :]
            exp = sp.hstack([sp.csr_matrix((r, o)), sp.csr_matrix(s.A), sp.csr_matrix((r, n - o - nx))]).tocsr() if s.A.shape[1] == nx else None
            okA = exp is not None and blk.shape == exp.shape and (abs(blk - exp).nnz == 0 or abs(blk - exp).max() == 0)
            okbb = g.b is not None and np.array_equal(g.b[row0:row0 + r], s.b) and (g.cType or '')[row0:row0 + r] == s.cType
            case.check(prefix + '.asset_rows_embedded', bool(okA and okbb), **who, rows=r, row0=row0)
            row0 += r
        elif s.A is not None and s.A.shape[0] == 0:
            pass
    # ---- nodal rows
    skip = set(pev.args.get('skip_nodes') or [])
    nN = A.shape[0] - row0
    ctN = (g.cType or '')[row0:]
    case.check(prefix + '.nodal_rows_typeN_b0', ctN == 'N' * nN and (nN == 0 or bool(np.all(g.b[row0:] == 0))), nonvacuous=nN > 0, nN=nN)
    if gm is not None and len(gm):
        d = gm[(gm['type'] == 'd')]
        dfac = d['disp_factor'].astype(float).fillna(1.).values if 'disp_factor' in d.columns else np.ones(len(d))
        want = {}
        for idx, node, t, f in zip(d.index, d['node'], d['time_step'], dfac):
            if node in skip:
                continue
            want.setdefault((int(t), str(node)), {})
            want[(int(t), str(node))][int(idx)] = want[(int(t), str(node))].get(int(idx), 0.) + float(f)
        mnr = g.map_nodal_restr or []
        case.check(prefix + '.one_nodal_row_per_node_step', nN == len(want) and len(mnr) == nN and len(set((int(a), str(b)) for a, b in mnr)) == nN,
                   nonvacuous=len(want) > 0, nN=nN, distinct_node_steps=len(want), n_map=len(mnr))
        if nN == len(want) == len(mnr):
            bad = None
            AN = A[row0:, :].tocsr()
            for k, (t, node) in enumerate(mnr):
                key = (int(t), str(node))
                if key not in want:
                    bad = ['row names unknown node/step', key]; break
                row = AN.getrow(k)
                got = {int(j): float(v) for j, v in zip(row.indices, row.data) if v != 0}
                exp = {j: v for j, v in want[key].items() if v != 0}
                if set(got) != set(exp) or any(abs(got[j] - exp[j]) > 1e-12 * (1 + abs(exp[j])) for j in exp):
                    bad = [key, 'got', sorted(got.items())[:6], 'want', sorted(exp.items())[:6]]; break
            case.check(prefix + '.nodal_row_coefficients', bad is None, nonvacuous=nN > 0, first_bad=bad)


# -------------------------------------------------------------------------------------------------
# C03
# -------------------------------------------------------------------------------------------------
def mon_optimize(case, ev, check_optimality=True, time_limit=30., scaled_only=False, snap_override=None):
    """At every OptimProblem.optimize return."""
    s = ev.snap if snap_override is None else snap_override
    res = ev.ret
    if s is None or ev.exc is not None:
        return
    a = ev.args
    target = str(a.get('target', 'value')).lower()
    soft = bool(a.get('make_soft_problem', False))
    solver = a.get('solver')
    info = {'n': len(s.c), 'rows': 0 if s.A is None else s.A.shape[0], 'solver': solver, 'target': target}
    case.event('mon_optimize')
    bi = solve.bool_vars(s) if not soft else np.zeros(0, int)
    is_mip = len(bi) > 0
    info['n_bool'] = int(len(bi))
    # status handling: what EAO reports vs. what the solver itself reported (cvxpy status recorded at the solver boundary)
    st = ev.extra.get('cvx_status')
    if st is not None:
        reported = 'success' if not isinstance(res, str) else res
        want = 'success' if st == 'optimal' else ('inaccurate' if st == 'optimal_inaccurate' else 'not successful')
        case.check('opt.status_mapping', reported == want, nonvacuous=True, **info, solver_status=st, reported=reported)
        if st == 'optimal_inaccurate':
            case.event('solver_flagged_inaccurate')
    if scaled_only:
        if not isinstance(res, str):
            x = np.asarray(res.x, dtype=float)
            v = float(-np.dot(s.c, x))
            case.check('opt.value_is_minus_cx', abs(float(res.value) - v) <= 1e-6 * (1. + abs(v)), **info, value=float(res.value), minus_cx=v)
        return
    case.feature('mip' if is_mip else 'lp', 'solver:' + str(solver))
    if isinstance(res, str):
        if res == 'inaccurate':
            case.event('result_inaccurate')
            return
        ref = solve.solve_op(s, relax=soft, time_limit=time_limit)
        if ref['status'] == 'other':
            case.inconc('reference solver undecided on a problem reported as failed'); return
        if ref['status'] == 'optimal' and ref.get('x') is not None:
            # a violation needs a witness: the reference's point must itself pass the exact residual test (boolean = {0,1} within the bounds)
            rr = solve.residuals(s, np.asarray(ref['x'], float))
            if not (rr['bound'] <= solve.TOL_FEAS and rr['rows'] <= solve.TOL_FEAS and (soft or rr['int'] <= solve.TOL_INT)):
                case.inconc('reference point fails the residual test'); return
        case.check('opt.failure_means_infeasible', ref['status'] == 'infeasible', **info, reported=res, reference=ref['status'],
                   ref_value=ref['value'])
        return
    x = np.asarray(res.x, dtype=float)
    if x.shape != s.c.shape:
        case.check('opt.x_shape', False, **info, shape=list(x.shape)); return
    r = solve.residuals(s, x)
    case.check('opt.bounds', r['bound'] <= solve.TOL_FEAS, **info, worst=r['bound'])
    for t in 'ULSN':
        if t in r['rows_by_class']:
            case.check('opt.rows_' + t, r['rows_by_class'][t] <= solve.TOL_FEAS, **info, worst=r['rows_by_class'][t])
    if is_mip:
        xb = x[bi]
        inbox = np.all(xb >= s.l[bi] - 1e-6) and np.all(xb <= s.u[bi] + 1e-6)
        case.check('opt.booleans', bool(r['int'] <= solve.TOL_INT and np.all(np.abs(xb - np.clip(np.round(xb), 0, 1)) <= solve.TOL_INT) and inbox),
                   **info, worst=r['int'])
    cnt = solve.binding_counts(s, x)
    for t, k in cnt.items():
        case.stats['binding_' + t] += k
    if target == 'value' or target == 'robust':
        v = float(-np.dot(s.c, x))
        tolv = (solve.TOL_VAL_MIP if is_mip else solve.TOL_VAL) * (1. + abs(v))
        case.check('opt.value_is_minus_cx', abs(float(res.value) - v) <= tolv, **info, value=float(res.value), minus_cx=v)
    if check_optimality and target == 'value':
        ref = solve.solve_op(s, relax=soft, time_limit=time_limit)
        if ref['status'] == 'optimal':
            tolv = (solve.TOL_VAL_MIP if is_mip else solve.TOL_VAL) * (1. + abs(ref['value']))
            case.check('opt.no_better_point', float(res.value) >= ref['value'] - tolv, **info, value=float(res.value), reference=ref['value'])
            above = float(res.value) > ref['value'] + tolv
            witness_ok = (r['bound'] <= solve.TOL_FEAS and r['rows'] <= solve.TOL_FEAS and (not is_mip or r['int'] <= solve.TOL_INT))
            if above and witness_ok and abs(float(res.value) - float(-np.dot(s.c, x))) <= tolv:
                # a point that passes the exact residual test and is worth more than the reference's "optimum" refutes the reference (scipy's HiGHS
                # returned sub-optimal MILP "optima" more than once), not the code under test
                case.event('reference_optimum_refuted_by_returned_point'); case.stats['reference_wrong'] += 1
            else:
                case.check('opt.not_above_optimum', not above, **info, value=float(res.value), reference=ref['value'])
        elif ref['status'] == 'infeasible':
            # The returned point itself decides feasibility (clauses above, exact residuals). If it passes them it is a witness that refutes the
            # reference's verdict (scipy's HiGHS was caught declaring feasible MILPs infeasible with either presolve setting): optimality of this
            # return is then undecided; only a point that fails the residual clauses AND an infeasible reference agree.
            feasible_witness = (r['bound'] <= solve.TOL_FEAS and r['rows'] <= solve.TOL_FEAS and (not is_mip or r['int'] <= solve.TOL_INT))
            if feasible_witness:
                case.event('reference_infeasibility_refuted_by_returned_point')
                case.stats['reference_wrong'] += 1
            else:
                case.check('opt.success_means_feasible', False, **info, reference='infeasible')
        else:
            case.inconc('reference solver: ' + ref['status'])
