"""Textbook reference formulation (C02, C20), written from the asset documentation, built from the SPEC only.

Explicit variables, sign convention + = into the node:
  contract   : pos_t, neg_t >= 0, net x_t = pos_t - neg_t, min_cap*dt <= x_t <= max_cap*dt, cost price*x + spread*(pos+neg)
  transport  : flow f_t in [min_cap*dt, max_cap*dt], -f at node 1, +eff*f at node 2, cost per flow
  storage    : ch_t in [0,cap_in*dt], di_t in [0,cap_out*dt], N_t = N_{t-1} + eff*ch_t - di_t (volume stored by dispatch),
               level = start + cumulated inflow + N_t in [0,size], last level = end level; holding cost on N_t
               (EAO documents that the constant cost of stored inflow is not part of the value; the start-level constant likewise)
  multi-commodity : contract variable x, dispatch factor_i * x at node i
  order book : e_o in [0,1] (or {0,1}), dispatch sum_o e_o*capa_o*dt_t at covered steps, cost e_o*capa_o*price_o*sum dt_t*disc_t
  take       : sum_{t in [s,e) & window} x_t <=/>= v * (sum dt of those steps)/(e-s)
  nodal      : equality per (node, step)
  discount   : (1+wacc)^(-D_t/365 d), D_t = elapsed time to the END of step t
"""
import numpy as np
import pandas as pd
import scipy.sparse as sp
from .spec import Clock, UNIT_NS
from . import solve


class RefLP:
    def __init__(self, spec):
        self.spec = spec
        self.clock = Clock(spec['grid'])
        self.T = self.clock.T
        self.c = []; self.lb = []; self.ub = []; self.integ = []
        self.roles = []                 # per variable: (kind, asset, key)
        self.rows = []                  # (coefs dict, lo, hi, label)
        self.bal = {}                   # (node, t) -> {var: coef}
        self.prices = {k: np.asarray(v, float) for k, v in spec.get('prices', {}).items()}
        self.unsupported = None
        for a in spec['assets']:
            self.add_asset(a)

    # ---- helpers
    def var(self, lb, ub, c, role, integer=False):
        self.c.append(float(c)); self.lb.append(float(lb)); self.ub.append(float(ub)); self.roles.append(role)
        self.integ.append(1 if integer else 0)
        return len(self.c) - 1

    def addbal(self, node, t, v, coef):
        d = self.bal.setdefault((node, t), {})
        d[v] = d.get(v, 0.) + coef

    def window(self, a):
        return self.clock.window(a.get('start'), a.get('end'))

    def add_asset(self, a):
        ty = a['type']
        if a.get('freq') or a.get('periodicity') or a.get('block_size') or a.get('no_simult_in_out') or a.get('max_store_duration'):
            self.unsupported = ty + ' with freq/periodicity/blocks/MIP option'; return
        if ty in ('SimpleContract', 'Contract'):
            self.contract(a, [(a['nodes'][0], 1.)])
        elif ty == 'MultiCommodityContract':
            self.contract(a, list(zip(a['nodes'], a['factors_commodities'])))
        elif ty in ('Transport', 'ExtendedTransport'):
            self.transport(a)
        elif ty == 'Storage':
            self.storage(a)
        elif ty == 'OrderBook':
            self.orderbook(a)
        else:
            self.unsupported = ty

    # ---- asset classes
    def contract(self, a, node_factors):
        ck = self.clock
        W = self.window(a); d = ck.disc(a.get('wacc', 0.))
        p = ck.vec(a['price'], self.prices) if a.get('price') else np.zeros(self.T)
        ec = ck.vec(a.get('extra_costs', 0.), self.prices, default=0.)
        mn = ck.vec(a.get('min_cap', 0.), self.prices); mx = ck.vec(a.get('max_cap', 0.), self.prices)
        xs = {}
        for t in W:
            lo, hi = mn[t] * ck.dt[t], mx[t] * ck.dt[t]
            pos = self.var(max(0., lo), max(0., hi), (p[t] + ec[t]) * d[t], ('pos', a['name'], t))
            neg = self.var(max(0., -hi), max(0., -lo), (-p[t] + ec[t]) * d[t], ('neg', a['name'], t))
            for node, f in node_factors:
                self.addbal(node, t, pos, f); self.addbal(node, t, neg, -f)
            xs[t] = (pos, neg)
        for key, sense in (('max_take', 'U'), ('min_take', 'L')):
            tk = a.get(key)
            if tk:
                for s, e, v in zip(tk['start'], tk['end'], tk['values']):
                    s = ck.ts(s); e = ck.ts(e)
                    S = [t for t in W if s <= ck.points[t] < e]
                    if not S:
                        continue
                    rhs = v * ck.dt[S].sum() / ((e - s).value / UNIT_NS[ck.unit])
                    co = {}
                    for t in S:
                        co[xs[t][0]] = 1.; co[xs[t][1]] = -1.
                    self.rows.append((co, -np.inf if sense == 'U' else rhs, rhs if sense == 'U' else np.inf, key + ':' + a['name']))

    def transport(self, a):
        ck = self.clock
        W = self.window(a); d = ck.disc(a.get('wacc', 0.))
        cts = ck.vec(a['costs_time_series'], self.prices) if a.get('costs_time_series') else np.zeros(self.T)
        fs = {}
        for t in W:
            cost = (cts[t] + a.get('costs_const', 0.)) * d[t]
            if a['max_cap'] <= 0:
                cost = -cost          # a link used against its nominal direction: the flow variable is <= 0, costs are paid on the absolute flow
            f = self.var(a['min_cap'] * ck.dt[t], a['max_cap'] * ck.dt[t], cost, ('flow', a['name'], t))
            self.addbal(a['nodes'][0], t, f, -1.); self.addbal(a['nodes'][1], t, f, a.get('efficiency', 1.))
            fs[t] = f
        for key, sense in (('max_take', 'U'), ('min_take', 'L')):
            tk = a.get(key)
            if tk:
                for s, e, v in zip(tk['start'], tk['end'], tk['values']):
                    s = ck.ts(s); e = ck.ts(e)
                    S = [t for t in W if s <= ck.points[t] < e]
                    if not S:
                        continue
                    rhs = v * ck.dt[S].sum() / ((e - s).value / UNIT_NS[ck.unit])
                    co = {fs[t]: 1. for t in S}      # quantity delivered FROM node 1
                    self.rows.append((co, -np.inf if sense == 'U' else rhs, rhs if sense == 'U' else np.inf, key + ':' + a['name']))

    def storage(self, a):
        ck = self.clock
        W = self.window(a); d = ck.disc(a.get('wacc', 0.))
        if not W:
            return
        p = ck.vec(a['price'], self.prices) if a.get('price') else np.zeros(self.T)
        nin = a['nodes'][0]; nout = a['nodes'][-1]
        prev = None; cum = 0.
        eff = a.get('eff_in', 1.)
        for i, t in enumerate(W):
            ch = self.var(0., a['cap_in'] * ck.dt[t], (a.get('cost_in', 0.) + p[t]) * d[t], ('ch', a['name'], t))
            di = self.var(0., a['cap_out'] * ck.dt[t], (a.get('cost_out', 0.) - p[t]) * d[t], ('di', a['name'], t))
            cum += a.get('inflow', 0.) * ck.dt[t]
            N = self.var(-a.get('start_level', 0.) - cum, a['size'] - a.get('start_level', 0.) - cum,
                         a.get('cost_store', 0.) * ck.dt[t] * d[t], ('lev', a['name'], t))
            co = {N: 1., ch: -eff, di: 1.}
            if prev is not None:
                co[prev] = -1.
            self.rows.append((co, 0., 0., 'level:' + a['name']))
            if i == len(W) - 1:
                tgt = a.get('end_level', 0.) - a.get('start_level', 0.) - cum
                self.lb[N] = tgt; self.ub[N] = tgt
            prev = N
            self.addbal(nin, t, ch, -1.); self.addbal(nout, t, di, 1.)

    def orderbook(self, a):
        ck = self.clock
        d = ck.disc(a.get('wacc', 0.))
        o = a['orders']
        for k in range(len(o['start'])):
            s = ck.ts(o['start'][k]); e = ck.ts(o['end'][k])
            S = [t for t in range(self.T) if s <= ck.points[t] < e]
            cost = o['capa'][k] * o['price'][k] * float(np.sum(ck.dt[S] * d[S])) if S else 0.
            ex = self.var(0., 1., cost, ('exec', a['name'], k), integer=bool(a.get('full_exec')))
            for t in S:
                self.addbal(a['nodes'][0], t, ex, o['capa'][k] * ck.dt[t])

    # ---- solve / evaluate
    def matrices(self):
        rows = list(self.rows) + [(co, 0., 0., 'balance:%s:%d' % k) for k, co in sorted(self.bal.items(), key=lambda kv: (str(kv[0][0]), kv[0][1]))]
        n = len(self.c)
        A = sp.lil_matrix((len(rows), n)); lo = np.zeros(len(rows)); hi = np.zeros(len(rows)); labels = []
        for i, (co, l, h, lab) in enumerate(rows):
            for v, cf in co.items():
                A[i, v] = cf
            lo[i] = l; hi[i] = h; labels.append(lab)
        return A.tocsr(), lo, hi, labels

    def solve(self, time_limit=60.):
        lb = np.array(self.lb); ub = np.array(self.ub)
        if np.any(lb > ub + 1e-9):
            return {'status': 'infeasible', 'value': None, 'x': None}
        lb = np.minimum(lb, ub)
        A, lo, hi, _ = self.matrices()
        integ = np.array(self.integ)
        return solve.highs(np.array(self.c), lb, ub, A, lo, hi, integ if integ.any() else None, time_limit)

    def evaluate(self, point):
        """point: role -> value. Returns (max scaled violation, label, objective value = -c.x)."""
        x = np.zeros(len(self.c))
        missing = []
        for i, r in enumerate(self.roles):
            if r in point:
                x[i] = point[r]
            elif r[0] != 'lev':
                missing.append(r)
        # levels from the recursion
        A, lo, hi, labels = self.matrices()
        by_asset = {}
        for i, r in enumerate(self.roles):
            if r[0] in ('ch', 'di', 'lev'):
                by_asset.setdefault(r[1], {})[(r[0], r[2])] = i
        for name, d in by_asset.items():
            a = [q for q in self.spec['assets'] if q['name'] == name][0]
            eff = a.get('eff_in', 1.)
            N = 0.
            for t in sorted(k[1] for k in d if k[0] == 'lev'):
                N += eff * x[d[('ch', t)]] - x[d[('di', t)]]
                x[d[('lev', t)]] = N
        xs = max(1., float(np.max(np.abs(x))) if len(x) else 1.)
        lb = np.array(self.lb); ub = np.array(self.ub)
        worst = 0.; where = None
        vb = np.maximum(lb - x, x - ub)
        if len(vb):
            k = int(np.argmax(vb))
            if vb[k] / xs > worst:
                worst = vb[k] / xs; where = 'bound of %r: %g not in [%g, %g]' % (self.roles[k], x[k], lb[k], ub[k])
        if A.shape[0]:
            ax = A @ x
            scale = 1. + np.where(np.isfinite(lo), np.abs(lo), 0) + np.where(np.isfinite(hi), np.abs(hi), 0) + np.asarray(abs(A).sum(axis=1)).ravel() * xs
            v = np.maximum(np.maximum(lo - ax, ax - hi), 0.) / scale
            k = int(np.argmax(v))
            if v[k] > worst:
                worst = float(v[k]); where = 'row %s: %g not in [%g, %g]' % (labels[k], ax[k], lo[k], hi[k])
        return worst, where, float(-np.dot(self.c, x)), missing


def eao_point(spec, snap, x):
    """EAO's per-variable solution mapped onto the reference roles, via the mapping's (asset, var_name, step)."""
    m = snap.mapping
    x = np.asarray(x, float)
    point = {}
    types = {a['name']: a['type'] for a in spec['assets']}
    first = m[~m.index.duplicated(keep='first')]
    for idx, asset, vn, t in zip(first.index, first['asset'], first['var_name'], first['time_step']):
        ty = types.get(asset)
        v = float(x[int(idx)]); t = int(t)
        if ty in ('SimpleContract', 'Contract', 'MultiCommodityContract'):
            if vn == 'disp':
                point[('pos', asset, t)] = max(v, 0.); point[('neg', asset, t)] = max(-v, 0.)
            elif vn == 'disp_in':
                point[('neg', asset, t)] = -v
                point.setdefault(('pos', asset, t), 0.)
            elif vn == 'disp_out':
                point[('pos', asset, t)] = v
                point.setdefault(('neg', asset, t), 0.)
        elif ty in ('Transport', 'ExtendedTransport'):
            point[('flow', asset, t)] = v
        elif ty == 'Storage':
            if vn == 'disp':
                point[('ch', asset, t)] = max(-v, 0.); point[('di', asset, t)] = max(v, 0.)
            elif vn == 'disp_in':
                point[('ch', asset, t)] = -v
            elif vn == 'disp_out':
                point[('di', asset, t)] = v
        elif ty == 'OrderBook':
            point[('exec', asset, int(vn))] = v
    # order books: one variable per order, incl. orders without mapping row: by position (asset's own numbering)
    return point
