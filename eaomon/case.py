"""Per-case verdict sink shared by monitors and drivers (three-valued verdicts)."""
import json
from collections import Counter
import numpy as np


def jsonable(x, depth=0):
    if depth > 8:
        return str(x)[:200]
    if isinstance(x, dict):
        return {str(k): jsonable(v, depth + 1) for k, v in x.items()}
    if isinstance(x, (list, tuple, set)):
        return [jsonable(v, depth + 1) for v in list(x)[:400]]
    if isinstance(x, np.ndarray):
        return jsonable(x.tolist()[:400], depth + 1)
    if isinstance(x, (np.integer,)):
        return int(x)
    if isinstance(x, (np.floating,)):
        return float(x)
    if isinstance(x, (np.bool_,)):
        return bool(x)
    if isinstance(x, (int, float, str, bool)) or x is None:
        return x
    return str(x)[:300]


class Case:
    """Collects what the monitors observed while one case executed."""
    def __init__(self, prop, idx, seed):
        self.prop = prop
        self.idx = idx
        self.seed = seed
        self.violations = []          # list of dict(clause=..., **witness)
        self.evaluated = Counter()    # clause -> times evaluated
        self.nonvacuous = Counter()   # clause -> times evaluated on a non-vacuous instance
        self.features = Counter()
        self.events = Counter()
        self.inconclusive = []        # reasons
        self.rejected = None          # reason (input outside the documented domain)
        self.nontrivial = False
        self.key = None               # canonical hash of the case (spec / history)
        self.sample = None            # abbreviated description of the case
        self.spec = None              # full spec for the replay file
        self.advisories = []
        self.stats = Counter()

    # --- monitor interface --------------------------------------------------------------------
    def check(self, clause, ok, nonvacuous=True, **witness):
        self.evaluated[clause] += 1
        if nonvacuous:
            self.nonvacuous[clause] += 1
        if not ok:
            w = {'clause': clause}
            w.update(witness)
            self.violations.append(jsonable(w))
        return bool(ok)

    def feature(self, *names):
        for n in names:
            self.features[str(n)] += 1

    def event(self, name, k=1):
        self.events[name] += k

    def inconc(self, reason):
        self.inconclusive.append(str(reason)[:300])

    def reject(self, reason):
        self.rejected = str(reason)[:300]

    # --- result -----------------------------------------------------------------------------------
    @property
    def status(self):
        if self.violations:
            return 'violated'
        if self.rejected:
            return 'rejected'
        if self.inconclusive and not self.evaluated:
            return 'inconclusive'
        return 'held'

    def to_record(self):
        return {
            'prop': self.prop, 'idx': self.idx, 'seed': self.seed, 'status': self.status,
            'violations': self.violations[:20], 'n_violations': len(self.violations),
            'evaluated': dict(self.evaluated), 'nonvacuous': dict(self.nonvacuous),
            'features': dict(self.features), 'events': dict(self.events),
            'inconclusive': self.inconclusive[:5], 'rejected': self.rejected,
            'nontrivial': bool(self.nontrivial), 'key': self.key, 'sample': jsonable(self.sample),
            'spec': jsonable(self.spec) if self.violations else None,
            'advisories': self.advisories[:5], 'stats': dict(self.stats),
        }

    def dumps(self):
        return json.dumps(self.to_record(), default=str)
