"""Workload helper: run one portfolio spec through the real set-up / optimise / extract calls under a Recorder."""
import numpy as np
from . import env, attach
from .spec import build


class Run:
    def __init__(self):
        self.built = None; self.rec = None; self.op = None; self.res = None; self.out = None
        self.error = None; self.stage = None; self.prices_changed = []

    @property
    def ok(self):
        return self.error is None

    @property
    def solved(self):
        return self.error is None and self.res is not None and not isinstance(self.res, str)


def run_portfolio(spec, split=None, solver=None, do_optimize=True, do_extract=True, built=None, fix_time_window=None,
                  rec=None, prices=None, skip_nodes=None, one_call=False, data_form='dict', timegrid=None, via_json=False):
    """Executes the real calls. Exceptions are caught and reported with the stage they came from."""
    r = Run()
    import eaopack.io as eio
    ctx = attach.recording() if rec is None else _Null(rec)
    with ctx as rc, env.quiet():
        r.rec = rc
        try:
            r.stage = 'build'
            r.built = built or build(spec)
            b = r.built
            if timegrid is not None:
                b.timegrid = timegrid          # (fresh assets on a Timegrid object that has been used before)
            if via_json and built is None:
                # the portfolio goes through its JSON form before it is used (documented way of storing / exchanging portfolios)
                import eaopack.serialization as _ser
                r.stage = 'json'
                b.portfolio.set_timegrid(b.timegrid)          # the portfolio is stored together with its grid (what run_from_json relies on)
                b.portfolio = _ser.load_from_json(_ser.to_json(b.portfolio))
                b.assets = {a_.name: a_ for a_ in b.portfolio.assets}
                if getattr(b.portfolio, 'timegrid', None) is not None:
                    b.timegrid = b.portfolio.timegrid         # ... and used on the grid it carries
            pr = b.prices if prices is None else prices
            pr_before = {k_: np.array(v_, copy=True) for k_, v_ in pr.items()} if isinstance(pr, dict) else None
            r.stage = 'setup'
            kw = {}
            if fix_time_window is not None:
                kw['fix_time_window'] = fix_time_window
            if skip_nodes:
                kw['skip_nodes'] = skip_nodes
            if one_call:
                # the documented shortcut eaopack.io.optimize: same calls, made by EAO itself; problem / result taken from the recorded events
                n0 = len(rc.events)
                r.stage = 'one_call'
                data = pr
                if data_form != 'dict':
                    import pandas as pd
                    # the documented DataFrame forms of the input data: positional (integer index) or indexed by the grid's own time points
                    data = pd.DataFrame({k: np.asarray(v, float) for k, v in pr.items()}, index=(b.timegrid.timepoints if data_form == 'frame_time' else None))
                r.out = eio.optimize(b.portfolio, b.timegrid, data, split_interval_size=split)
                evs = rc.events[n0:]
                top = [e for e in evs if e.kind == ('split_setup' if split else 'portfolio_setup') and e.ret is not None]
                r.op = top[0].ret if top else None
                opt = [e for e in evs if e.kind == ('split_optimize' if split else 'optimize') and e.exc is None]
                r.res = opt[-1].ret if opt else None
                r.stage = 'done'
                return r
            if split:
                r.op = b.portfolio.setup_split_optim_problem(pr, b.timegrid, interval_size=split, **kw)
            else:
                r.op = b.portfolio.setup_optim_problem(pr, b.timegrid, **kw)
            if pr_before is not None:
                r.prices_changed = [k_ for k_, v_ in pr_before.items() if not np.array_equal(np.asarray(pr[k_]), v_, equal_nan=True)]
            if do_optimize:
                r.stage = 'optimize'
                r.res = r.op.optimize(solver=solver) if solver else r.op.optimize()
                if do_extract:
                    r.stage = 'extract'
                    r.out = eio.extract_output(b.portfolio, r.op, r.res, pr)
            r.stage = 'done'
        except Exception as e:      # noqa
            r.error = e
    return r


class _Null:
    def __init__(self, rec):
        self.rec = rec

    def __enter__(self):
        return self.rec

    def __exit__(self, *a):
        return False


def top_setups(rec):
    """[(portfolio_setup event, [child asset_setup events])] for the outermost portfolio set-ups, in call order
    (one for a monolithic problem; one per interval for a split problem)."""
    kinds = {e.id: e.kind for e in rec.events}
    out = []
    for e in rec.of('portfolio_setup'):
        if e.parent is None or kinds.get(e.parent) == 'split_setup':
            if e.args.get('costs_only'):
                continue
            out.append((e, rec.children(e, 'asset_setup')))
    return out


def describe_error(r):
    return '%s at %s: %s' % (type(r.error).__name__, r.stage, str(r.error)[:160])
