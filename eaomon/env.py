"""Environment: where the repository under test lives, silencing, seeds."""
import os, sys, io, contextlib, warnings, hashlib

REPO = os.environ.get('EAO_REPO', '/repo')
VERIF = os.path.dirname(os.path.dirname(os.path.abspath(__file__)))
GUARD = 'EAO_VERIF'          # reserved guard name (no in-source hooks exist)

def use_repo():
    """Put the repository under test first on sys.path (checks rebuild from the working tree: nothing is installed)."""
    if REPO in sys.path:
        sys.path.remove(REPO)
    sys.path.insert(0, REPO)
    warnings.filterwarnings('ignore')
    os.environ.setdefault('PYTHONWARNINGS', 'ignore')

@contextlib.contextmanager
def quiet():
    """EAO prints a lot."""
    buf = io.StringIO()
    with contextlib.redirect_stdout(buf):
        yield buf

def q(f, *a, **k):
    with quiet():
        return f(*a, **k)

def case_seed(base_seed: int, prop: str, idx: int) -> int:
    h = hashlib.sha256(f'{base_seed}|{prop}|{idx}'.encode()).digest()
    return int.from_bytes(h[:8], 'little')

def spec_key(obj) -> str:
    import json
    return hashlib.sha256(json.dumps(obj, sort_keys=True, default=str).encode()).hexdigest()[:16]
