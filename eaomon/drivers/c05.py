"""C05 Storage physics: level within [0, size], ends at end level, reported truly."""
import numpy as np
import pandas as pd
from .. import env, attach, gen, flow
from ..spec import Clock
from ..mon_output import storage_series

PROPERTY = 'C05'
CASES = {'quick': 468, 'thorough': 3744}
BUDGET_S = {'quick': 240, 'thorough': 2400}
RULE = ('case = 1-2 storages (inflow, start != end level, efficiency, one or two nodes, windows, time blocks, no_simult_in_out, '
        'max_store_duration, coarse frequency, storage not attached to the last node) embedded in a random portfolio with markets (negative '
        'prices in part of the cases), optimised and extracted through the real code. The monitor rebuilds charge/discharge per step from the '
        'storage\'s own variables, runs the level recursion with an independent UTC clock and compares bounds, end level, rate limits, MIP '
        'options and the reported fill_level / charge / discharge series. Non-trivial: the storage moved >1e-6 of volume; distinct = spec hashes.')
ASSUMPTIONS = ['reported series are compared inside the storage window, for coarse-frequency storages at the ends of the coarse steps',
               'time blocks are generated with start_level == end_level and block sizes aligned with the asset start (per-block reading with start != end is not specified sharply)',
               'tolerance 1e-6*(1+size+sum|x|)']
MIN_NONVACUOUS = {'quick': {'storage.level_in_bounds': 200, 'storage.end_level': 200, 'storage.rate_limits': 200, 'storage.reported_fill_level': 150,
                            'storage.reported_charge_discharge': 150, 'storage.no_simultaneous': 20, 'storage.max_store_duration': 20, 'storage.blocks_return_to_level': 20},
                  'thorough': {'storage.level_in_bounds': 1200, 'storage.reported_fill_level': 900, 'storage.no_simultaneous': 120,
                               'storage.max_store_duration': 120, 'storage.blocks_return_to_level': 120}}


def gen_case(rng):
    mode = gen.pick(rng, ['lp', 'lp', 'lp', 'lp', 'nosimult', 'maxdur', 'blocks', 'blocks', 'coarse'])
    grid_kw = {'steps': (5, 26)}
    if mode in ('blocks', 'coarse'):
        grid_kw['freqs'] = ['h', '2h', '30min']; grid_kw['steps'] = (12, 40); grid_kw['hour_offsets'] = (0, 0, 6)
    if mode in ('nosimult', 'maxdur'):
        grid_kw['steps'] = (5, 14)
    g = gen.gen_grid(rng, **grid_kw)
    f = gen.UNIT_F[g['unit']]
    T = len(gen.grid_points(g))
    nn = int(rng.integers(1, 4)); nodes = ['n%d' % i for i in range(nn)]
    assets = []; pk = []
    for i, n in enumerate(nodes):
        assets.append(gen.gen_market(rng, 'mkt%d' % i, n, f, 'p%d' % i, spread=gen.pick(rng, [0., 0.1]))); pk.append('p%d' % i)
    for j in range(int(rng.integers(1, 3))):
        nds = [gen.pick(rng, nodes)] if (nn == 1 or rng.random() < 0.5) else [nodes[int(i)] for i in rng.permutation(nn)[:2]]
        a = gen.gen_storage(rng, g, 'S%d' % j, nds, f, price_key=None, window=(mode == 'lp'))
        if a['size'] == 0 and rng.random() < 0.7:
            a['size'] = 10.
        if mode == 'nosimult':
            a['no_simult_in_out'] = True
            if rng.random() < 0.7:
                a['eff_in'] = gen.pick(rng, [0.9, 0.8])
            a['cap_in'] = gen.r2(gen.pick(rng, [1., 2., 3.]) * f); a['cap_out'] = gen.r2(gen.pick(rng, [1., 2.]) * f)
        elif mode == 'maxdur':
            st = float(pd.Timedelta(pd.tseries.frequencies.to_offset(g['freq'])) / pd.Timedelta(1, g['unit']))
            a['max_store_duration'] = gen.r2(st * gen.pick(rng, [1, 2, 3]))
            if rng.random() < 0.7:
                a['start_level'] = 0.; a['end_level'] = 0.; a['inflow'] = 0.
            a['size'] = max(a['size'], 5.)
        elif mode == 'blocks':
            a['end_level'] = a['start_level']
            if rng.random() < 0.5 and a['size'] > 0:
                # start level above / below the end level: every block starts at the one and ends at the other
                a['start_level'], a['end_level'] = gen.pick(rng, [(a['size'] / 2., 0.), (a['size'] / 2., a['size'] / 4.), (0., a['size'] / 4.), (a['size'] * 0.75, 0.)])
                a['inflow'] = 0.
                if rng.random() < 0.5:
                    a['size'] = 5.; a['start_level'] = min(a['start_level'], 3.75); a['end_level'] = min(a['end_level'], 1.25)      # (a small reservoir: the level bounds bind)
            a['block_size'] = gen.pick(rng, ['d', '12h', '6h'])
            a.pop('start', None); a.pop('end', None)
        elif mode == 'coarse':
            a['freq'] = gen.pick(rng, gen.COARSE_OF[g['freq']]); a['wacc'] = 0.
        assets.append(a)
    for j in range(int(rng.integers(0, 3))):
        key = 'q%d' % j; pk.append(key)
        if nn > 1 and rng.random() < 0.5:
            n1, n2 = [nodes[int(i)] for i in rng.permutation(nn)[:2]]
            assets.append(gen.gen_transport(rng, g, 't%d' % j, n1, n2, f, cost_key=key))
        else:
            assets.append(gen.gen_contract(rng, g, 'c%d' % j, gen.pick(rng, nodes), f, key))
    perm = rng.permutation(len(assets))
    assets = [assets[int(i)] for i in perm]
    kind = gen.pick(rng, ['normal', 'sin', 'neg', 'neg', 'tail_neg']) if mode in ('nosimult', 'lp') else gen.pick(rng, ['normal', 'sin', 'neg', 'tail_neg', 'tail_neg', 'head_neg'])
    if mode == 'lp' and rng.random() < 0.4:
        # one of the storages wrapped in a scaled asset of fixed scale (norm scale != 1): the same physics at s / norm_scale times the sizes
        k_ = next((i for i, a in enumerate(assets) if a['type'] == 'Storage' and not a.get('start') and not a.get('end') and not a.get('freq')), None)
        if k_ is not None:
            b_ = assets[k_]; b_name = b_['name']; b_['name'] = b_name + '_base'; b_['wacc'] = 0.
            sc_ = float(gen.pick(rng, [1., 2., 8.]))
            free_ = rng.random() < 0.6          # (the size chosen by the optimiser: fix costs make an interior size attractive)
            assets[k_] = {'type': 'ScaledAsset', 'name': b_name, 'base': b_, 'min_scale': 0. if free_ else sc_, 'max_scale': 8. if free_ else sc_, 'norm_scale': float(gen.pick(rng, [2., 4., 1.])),
                          'fix_costs': gen.r2(gen.pick(rng, [0.02, 0.2, 1.]) * f) if free_ else 0., 'wacc': 0.}
    return {'grid': g, 'assets': assets, 'prices': gen.gen_prices(rng, T, sorted(set(pk)), kind=kind)}, mode


def check_storage(case, a, snap, x, clock, out, portf_T):
    name = a['name']
    T = clock.T
    ch, di, steps = storage_series(snap, x, name, T)
    if len(steps) == 0:
        case.feature('storage_inactive'); return False
    size = a['size']; eff = a.get('eff_in', 1.); infl = a.get('inflow', 0.)
    tol = 1e-6 * (1. + size + float(ch.sum() + di.sum()))
    act = np.zeros(T, bool); act[steps] = True
    who = {'storage': name, 'p_start_level': a.get('start_level', 0.), 'p_end_level': a.get('end_level', 0.), 'p_inflow': infl,
           'p_max_store_duration': a.get('max_store_duration')}
    # rates
    case.check('storage.rate_limits', bool(np.all(ch <= a['cap_in'] * clock.dt + tol) and np.all(di <= a['cap_out'] * clock.dt + tol)), **who,
               worst_ch=float(np.max(ch - a['cap_in'] * clock.dt)), worst_di=float(np.max(di - a['cap_out'] * clock.dt)))
    moved = float(ch.sum() + di.sum()) > 1e-6
    delta = eff * ch - di + np.where(act, infl * clock.dt, 0.)
    coarse = bool(a.get('freq'))
    # ends of (coarse) steps: fine steps after which the level is defined
    m = snap.mapping; mm = m[(m['asset'] == name) & (m['type'] == 'd')]
    if coarse:
        last_of_var = mm.groupby(level=0)['time_step'].max().values.astype(int)
        ends = np.array(sorted(set(last_of_var)))
    else:
        ends = steps
    if a.get('block_size'):
        # generated with start_level == end_level: the physical (continuous) level must respect the bounds at every step and be back at
        # that level at every block end. Block ends are derived independently (asset start + k * block size); if a daylight-saving switch lies
        # within two days before the start or inside the horizon, EAO's absolute-time arithmetic may place them one step off: then only the bounds
        # and the final level are claimed.
        B = pd.Timedelta(a['block_size']) if a['block_size'] not in ('d',) else pd.Timedelta(days=1)
        lev_full = a.get('start_level', 0.) + np.cumsum(delta)
        if a.get('start_level', 0.) != a.get('end_level', 0.):
            # every block is a storage problem of its own: it starts at the start level and ends at the end level ("the same bounds hold in every block").
            # Block ends derived independently (asset start + k * block size); only claimed when no daylight-saving switch is near (see below)
            ext = pd.date_range(start=clock.points[0] - pd.Timedelta(days=2), end=clock.points[-1] + pd.Timedelta(days=1), freq='h')
            if len({p.utcoffset() for p in ext}) == 1:
                t0 = clock.points[steps[0]]
                blk = np.array([int((clock.points[t] - t0) / B) for t in steps])
                # EAO places a block boundary at every grid point that is the last one <= a boundary time, INCLUDING the window end itself: if the window ends
                # exactly on a block boundary, the last step forms a block of its own (observed, documented here; with start == end level it only
                # forbids carrying volume into the last step)
                t_end = clock.points[steps[-1] + 1] if steps[-1] + 1 < clock.T else clock.points[-1] + (clock.points[-1] - clock.points[-2] if clock.T > 1 else B)
                if len(steps) > 1 and abs(((t_end - t0) / B) - round((t_end - t0) / B)) < 1e-9:
                    blk[-1] = blk[-1] + 1
                okb = True; oke = True; worst = None
                for bq in np.unique(blk):
                    S = steps[blk == bq]
                    lev = a.get('start_level', 0.) + np.cumsum(delta[S])
                    if lev.min() < -tol or lev.max() > size + tol:
                        okb = False; worst = [int(bq), float(lev.min()), float(lev.max())]
                    if abs(lev[-1] - a.get('end_level', 0.)) > tol:
                        oke = False
                case.check('storage.level_in_bounds', okb, nonvacuous=moved, **who, blocks=True, per_block=True, worst=worst, size=size)
                case.check('storage.blocks_return_to_level', oke, nonvacuous=moved, **who, end_level=a.get('end_level', 0.), block_size=a['block_size'], per_block=True)
            else:
                case.feature('blocks_near_dst_switch')
            lev_full = None
        le = lev_full[steps] if lev_full is not None else None
    if a.get('block_size') and le is not None:
        case.check('storage.level_in_bounds', bool(le.min() >= -tol and le.max() <= size + tol), nonvacuous=moved, **who, blocks=True, min=float(le.min()), max=float(le.max()), size=size)
        case.check('storage.end_level', abs(lev_full[steps[-1]] - a.get('end_level', 0.)) <= tol, nonvacuous=moved or infl != 0, **who, last_level=float(lev_full[steps[-1]]), end_level=a.get('end_level', 0.))
        ext = pd.date_range(start=clock.points[0] - pd.Timedelta(days=2), end=clock.points[-1] + pd.Timedelta(days=1), freq='h')
        off = {p.utcoffset() for p in ext}
        if len(off) == 1:
            t0 = clock.points[steps[0]]
            blk = np.array([int((clock.points[t] - t0) / B) for t in steps])
            ok_r = True; worst = None
            for b in np.unique(blk):
                S = steps[blk == b]
                if abs(lev_full[S[-1]] - a.get('end_level', 0.)) > tol:
                    ok_r = False; worst = [int(b), 'end', float(lev_full[S[-1]])]
            case.check('storage.blocks_return_to_level', ok_r, nonvacuous=moved and len(np.unique(blk)) > 1, **who, worst=worst, end_level=a.get('end_level', 0.), block_size=a['block_size'])
        else:
            case.feature('blocks_near_dst_switch')
    elif not a.get('block_size'):
        lev_full = a.get('start_level', 0.) + np.cumsum(delta)
        le = lev_full[ends]
        case.check('storage.level_in_bounds', bool(le.min() >= -tol and le.max() <= size + tol), nonvacuous=moved, **who,
                   min=float(le.min()), max=float(le.max()), size=size, start=a.get('start_level', 0.), inflow=infl)
        case.check('storage.end_level', abs(lev_full[steps[-1]] - a.get('end_level', 0.)) <= tol, nonvacuous=moved or infl != 0, **who,
                   last_level=float(lev_full[steps[-1]]), end_level=a.get('end_level', 0.))
    if a.get('no_simult_in_out'):
        both = (ch > 1e-6) & (di > 1e-6)
        tempt = bool(eff < 1 or a.get('cost_in') or a.get('cost_out') or len(a['nodes']) == 2)
        case.check('storage.no_simultaneous', not both.any(), nonvacuous=moved and tempt, **who, steps=np.where(both)[0][:5].tolist(),
                   ch=ch[both][:3].tolist(), di=di[both][:3].tolist())
    if a.get('max_store_duration') is not None:
        md = a['max_store_duration']
        lev = lev_full[steps]
        run = 0.; worst_run = 0.
        for k, t in enumerate(steps):
            if lev[k] > 1e-6 * (1 + size):
                run += clock.dt[t]; worst_run = max(worst_run, run)
            else:
                run = 0.
        case.check('storage.max_store_duration', worst_run <= md + 1e-9 * (1 + md), nonvacuous=moved, **who, longest_nonzero_run=worst_run, max_store_duration=md,
                   start_level=a.get('start_level', 0.), inflow=infl, level=[round(float(v), 4) for v in lev[:16]])
    # ---- reporting
    iv = out.get('internal_variables') if out else None
    if a.get('_no_reported_series'):
        return moved          # (a storage inside a wrapper: extract_output has no storage series for it)
    if iv is not None:
        col = name + '_fill_level'
        if col not in iv.columns:
            case.check('storage.reported_fill_level', False, **who, error='column missing')
        else:
            rep = iv[col].values.astype(float)
            if a.get('block_size') and a.get('start_level', 0.) != a.get('end_level', 0.):
                pass
            else:
                d = np.abs(rep[ends] - lev_full[ends])
                k = int(np.argmax(d))
                case.check('storage.reported_fill_level', bool(d[k] <= tol), nonvacuous=moved or infl != 0, **who, step=int(ends[k]), reported=float(rep[ends][k]),
                           physical=float(lev_full[ends][k]), inflow=infl, coarse=coarse)
        cc, dc = name + '_charge', name + '_discharge'
        if cc in iv.columns and dc in iv.columns:
            rc = iv[cc].values.astype(float); rd = iv[dc].values.astype(float)
            ok = bool(np.max(np.abs(rc - ch)) <= tol and np.max(np.abs(rd + di)) <= tol)
            case.check('storage.reported_charge_discharge', ok, nonvacuous=moved, **who, reported_charge=float(rc.sum()), charge=float(ch.sum()),
                       reported_discharge=float(rd.sum()), discharge=float(di.sum()))
        else:
            case.check('storage.reported_charge_discharge', False, **who, error='columns missing')
    return moved


def maxdur_admission(rng, tier, case, clause='storage.max_hold_pattern_admission', force_unequal=False):
    """Exhaustive workload for the maximum holding time: one storage (empty at start and end, no inflow) with max_store_duration on a grid of T <= 8 steps
    builds its problem once; EVERY pattern in {0,1}^T is pinned on the 'level is non-zero' booleans and HiGHS decides feasibility of the real rows. Model: a
    pattern is admissible iff every maximal run of ones lasts (sum of the REAL step lengths, UTC clock) at most the limit. Disagreement in either direction -
    a holding time beyond the limit admitted, or one within the limit excluded - is a violation."""
    import itertools
    import eaopack.assets as EA
    from eaopack.basic_classes import Node, Timegrid
    from .. import solve
    from ..spec import build_timegrid
    T = 6 if tier == 'quick' else 8
    if force_unequal or rng.random() < 0.4:
        for _ in range(30):
            g = gen.gen_grid(rng, dst=True, steps=(T, T))
            if g['freq'] == 'd':
                break
        pts = gen.grid_points(g)
        if len(pts) > T:
            g['end'] = gen.naive_str(pts[T])
    else:
        g = gen.gen_grid(rng, freqs=['h', '2h', '30min', 'd'], steps=(T, T), tzs=[None, 'CET'])
    ck = Clock(g)
    if ck.T != T:
        case.reject('grid with %d steps' % ck.T); return
    uneq = bool(np.ptp(ck.dt) > 1e-12)
    nominal = float(np.median(ck.dt))
    md = float(gen.pick(rng, [1., 2., 2., 3., 1.5, 2.02, 0.98 * 2])) * nominal          # (limits on, between and just beside whole numbers of steps)
    params = {'grid': g, 'max_store_duration': md, 'dt': [float(x) for x in ck.dt]}
    case.key = env.spec_key(params); case.sample = params; case.spec = params
    case.feature('maxdur_admission', 'unequal_steps' if uneq else 'equal_steps', 'freq:%s/%s' % (g['freq'], g['unit']))
    with attach.recording() as rec, env.quiet():
        try:
            f = gen.UNIT_F[g['unit']]
            a = EA.Storage(name='S', nodes=Node('n'), cap_in=5. * f, cap_out=5. * f, size=10., start_level=0., end_level=0., max_store_duration=md)
            a.setup_optim_problem({}, build_timegrid(g))
        except Exception as e:
            case.check('storage.max_hold_setup_works', False, params=params, error='%s: %s' % (type(e).__name__, str(e)[:150])); return
    snap = rec.of('asset_setup')[-1].snap
    mp = snap.mapping
    bl = mp[mp['bool'].fillna(False).astype(bool)] if 'bool' in mp.columns else mp.iloc[0:0]
    bvars = np.asarray(bl.sort_values('time_step').index, int)
    if len(bvars) != T:
        case.check('storage.max_hold_boolean_per_step', False, params=params, n=len(bvars)); return
    excluded = 0
    for p in itertools.product([0, 1], repeat=T):
        pa = np.array(p, float)
        l = snap.l.copy(); u = snap.u.copy(); l[bvars] = pa; u[bvars] = pa
        sres = solve.solve_op(snap, extra_l=l, extra_u=u, time_limit=20.)
        if sres['status'] == 'other':
            case.inconc('reference solver undecided'); continue
        fe = sres['status'] == 'optimal'
        mo = True; i = 0
        while i < T:
            if p[i] == 1:
                j = i
                while j < T and p[j] == 1:
                    j += 1
                if float(ck.dt[i:j].sum()) > md * (1 + 1e-12) + 1e-12:
                    mo = False
                i = j
            else:
                i += 1
        if not mo:
            excluded += 1
        case.check(clause, fe == mo, nonvacuous=True, params=params, pattern=list(p), eao_admits=bool(fe), model_admits=bool(mo))
    case.stats['patterns'] += 2 ** T
    case.nontrivial = excluded > 0


def run_case(rng, tier, case):
    if rng.random() < 0.1:
        return maxdur_admission(rng, tier, case)
    spec, mode = gen_case(rng)
    case.feature('mode:' + mode)
    for t in gen.asset_types(spec):
        case.feature('type:' + t)
    case.key = env.spec_key(gen.strip_private(spec)); case.sample = gen.abbreviate(spec); case.spec = spec
    r = flow.run_portfolio(spec)
    if not r.ok:
        case.reject(flow.describe_error(r)); return
    if not r.solved:
        case.inconc('not solved: ' + str(r.res)); return
    clock = Clock(spec['grid'])
    ev = [e for e in r.rec.of('optimize') if e.snap is not None][-1]
    nt = False
    last_node = r.built.portfolio.assets[-1].nodes[-1].name
    for a in spec['assets']:
        if a['type'] == 'Storage':
            if a['nodes'][-1] != last_node:
                case.feature('storage_not_at_last_node')
            if a.get('inflow'): case.feature('inflow')
            if a.get('start_level') != a.get('end_level'): case.feature('start_ne_end')
            if len(a['nodes']) == 2: case.feature('two_nodes')
            if check_storage(case, gen.strip_private(a), ev.snap, np.asarray(r.res.x, float), clock, r.out, r.built.timegrid.T):
                nt = True
        elif a['type'] == 'ScaledAsset' and a['base']['type'] == 'Storage':
            # a storage of scale s (fixed, or chosen by the optimiser and reported; sizes per norm scale): the physics of a storage whose rates, size, levels and
            # inflow are s / norm_scale times the base's
            s_star = a['min_scale']
            if a['min_scale'] != a['max_scale']:
                sp_ = r.out.get('special')
                row_ = sp_[(sp_['asset'] == a['name']) & (sp_['name'] == 'scale')] if sp_ is not None and len(sp_) else []
                if len(row_) != 1:
                    continue
                s_star = float(row_['value'].iloc[0])
            b_ = gen.strip_private(a['base']); k_ = s_star / a['norm_scale']
            eff_ = dict(b_, name=a['name'], **{q: b_[q] * k_ for q in ('cap_in', 'cap_out', 'size', 'start_level', 'end_level', 'inflow') if b_.get(q) is not None})
            eff_['_no_reported_series'] = True
            case.feature('storage_inside_scaled_asset')
            if check_storage(case, eff_, ev.snap, np.asarray(r.res.x, float), clock, r.out, r.built.timegrid.T):
                nt = True
    case.nontrivial = nt


def _is_f16(v, rec):
    # max_store_duration with start_level > 0, end_level > 0 or inflow: the level rows are rewritten with the binary 'not empty' indicator
    # as if the storage started empty without inflow - holding duration, end level and level bounds then refer to
    # (level - start - cumulated inflow) instead of the level
    return (v.get('clause') in ('storage.max_store_duration', 'storage.end_level', 'storage.level_in_bounds') and v.get('p_max_store_duration') is not None
            and ((v.get('p_start_level') or 0) != 0 or (v.get('p_inflow') or 0) != 0 or (v.get('p_end_level') or 0) != 0))


CLASSIFIERS = {'c05_max_store_duration_with_start_level_or_inflow': _is_f16}
