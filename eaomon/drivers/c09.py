"""C09 Results do not depend on asset/node names or on the order of assets."""
import copy
import numpy as np
from .. import env, attach, gen, flow, solve
from ..canon import Snap, problem_diff, vec_diff, mat_diff, nodal_row_index
from .c07 import rename_hostile

PROPERTY = 'C09'
gen.OFFGRID = 0.12      # some asset windows start or end strictly between two grid points
CASES = {'quick': 360, 'thorough': 2880}
BUDGET_S = {'quick': 240, 'thorough': 2400}
RULE = ('case = a random mixed portfolio P (transports, storages with two nodes, multi-commodity, CHP/Plant, structured, scaled, order books, '
        'mixed wacc) and two variants executed through the real code: P renamed by an injective renaming of assets and nodes drawn from a hostile '
        'pool (numeric names 1/11/111, prefixes/suffixes of each other, names containing " (", "__", "_internal_", different lengths) and P with '
        'its asset list permuted. Renaming: (c,l,u,A,b,cType) must be identical arrays and the mapping identical up to the renaming; optimal value, '
        'dispatch and DCF tables equal up to relabelling. Permutation: each asset\'s own sub-problem identical, nodal rows identical as a set, '
        'optimal value equal. Non-trivial: >=3 assets and >=1 multi-node asset or mixed wacc; distinct = spec hashes.')
ASSUMPTIONS = ['structural comparison exact (renaming) / exact per asset block (permutation)', 'value tolerance 1e-5 (MIP 2e-4) relative',
               'per-asset dispatch/DCF are compared only under renaming (same numeric problem => same solver output); under permutation optima need not be unique']
MIN_NONVACUOUS = {'quick': {'rename.problem_identical': 200, 'rename.value_equal': 150, 'rename.outputs_equal_up_to_relabelling': 150,
                            'permute.asset_blocks_identical': 200, 'permute.nodal_rows_identical': 200, 'permute.value_equal': 150},
                  'thorough': {'rename.problem_identical': 1500, 'permute.asset_blocks_identical': 1500, 'permute.value_equal': 1200}}


def all_names(spec):
    out = []
    def rec(a):
        out.append(a['name'])
        if 'base' in a: rec(a['base'])
        for x in a.get('assets', []): rec(x)
    for a in spec['assets']: rec(a)
    return out


def nodal_rows(snap, colmap=None):
    """{(step,node): {col: coef}} for N rows."""
    A = snap.A.tocsr()
    N = nodal_row_index(snap)
    out = {}
    for i, (t, n) in zip(N, snap.map_nodal_restr or []):
        row = A.getrow(i)
        out[(int(t), str(n))] = {int(j) if colmap is None else colmap[int(j)]: float(v) for j, v in zip(row.indices, row.data)}
    return out


def run_case(rng, tier, case):
    base = gen.gen_mixed_portfolio(rng, kinds=('contract', 'transport', 'transport', 'storage', 'storage', 'multi', 'orderbook', 'plant', 'chp', 'structured', 'scaled', 'coarse', 'periodic', 'coarse_pair', 'linked', 'chp_minload'),
                                   grid_kw={'steps': (4, 20)}, n_assets=(2, 5), n_nodes=(1, 3))
    spec = gen.strip_private(base)
    if rng.random() < 0.5:
        # mixed discount rates on top-level assets
        for a in spec['assets']:
            if 'wacc' in a and a['type'] not in ('ScaledAsset',) and not a.get('periodicity') and not a['name'].startswith('cp'):
                a['wacc'] = gen.pick(rng, [0., 0.05, 0.1, 0.3])
    structs = [a for a in spec['assets'] if a['type'] == 'StructuredAsset']
    if structs and rng.random() < 0.5:
        # structured asset with a window of its own around wrapped assets with different own windows (the order of the WRAPPED assets is permuted below)
        g_ = spec['grid']
        for sa in structs:
            ws, we, _k = gen.gen_window(rng, g_, kinds=['inside', 'straddle_start', 'straddle_end', 'start_only', 'end_only'])
            sa['start'] = ws; sa['end'] = we
            for x in sa['assets']:
                if x['type'] != 'Storage':
                    i_s, i_e, _k2 = gen.gen_window(rng, g_, kinds=['none', 'inside', 'straddle_start', 'straddle_end', 'start_only', 'end_only'])
                    x['start'] = i_s; x['end'] = i_e
        case.feature('structured_with_windows')
    g_ = spec['grid']
    if not any(a.get('periodicity') for a in spec['assets']) and g_['freq'] in gen.PERIOD_OF and gen.equal_steps(g_) and len(gen.grid_points(g_)) >= 8 and rng.random() < 0.3:
        # a periodic contract (its twin with another duration is added below)
        opts_ = [(p_, d_) for (p_, d_) in gen.PERIOD_OF[g_['freq']] if len([1 for (p2, d2) in gen.PERIOD_OF[g_['freq']] if p2 == p_]) >= 2]
        if opts_:
            p_, d_ = opts_[int(rng.integers(len(opts_)))]
            nd_ = sorted({n for a in spec['assets'] if a['type'] != 'StructuredAsset' for n in (a.get('nodes') or [])})[0]
            pc = gen.strip_private(gen.gen_contract(rng, g_, 'pe_first', nd_, gen.UNIT_F[g_['unit']], sorted(spec['prices'])[0], window=False, take=False, dict_caps=False))
            pc['periodicity'] = p_; pc['wacc'] = 0.
            if d_:
                pc['periodicity_duration'] = d_
            spec['assets'].append(pc)
    pers = [a for a in spec['assets'] if a.get('periodicity') and a['type'] in ('SimpleContract', 'Contract')]
    if pers and rng.random() < 0.7:
        # a second periodic asset with the SAME period but another duration interval (its own table of periods and durations)
        tw = copy.deepcopy(pers[0]); tw['name'] = 'pe_twin'
        durs = [d_ for (p_, d_) in gen.PERIOD_OF.get(spec['grid']['freq'], []) if p_ == tw['periodicity'] and d_ != tw.get('periodicity_duration')]
        if durs:
            d_new = durs[int(rng.integers(len(durs)))]
            if d_new is None:
                tw.pop('periodicity_duration', None)
            else:
                tw['periodicity_duration'] = d_new
            tw['min_cap'] = gen.r2(tw['min_cap'] * 0.5); tw['extra_costs'] = 0.7
            spec['assets'].append(tw)
            case.feature('periodic_twin_other_duration')
    mip = gen.is_mip(spec)
    tolv = solve.TOL_VAL_MIP if mip else solve.TOL_VAL
    for t in gen.asset_types(spec):
        case.feature('type:' + t)
    r0 = flow.run_portfolio(spec)
    if not r0.ok:
        case.reject('P: ' + flow.describe_error(r0)); return
    p0 = Snap(r0.op)
    # ---------------- renaming
    ren, maps = rename_hostile(rng, spec)
    if maps and structs and rng.random() < 0.3:
        # names are unique per portfolio: after the renaming an outer asset may carry the name of an asset wrapped inside a structured asset
        outer_ = [a for a in ren['assets'] if a['type'] not in ('StructuredAsset', 'LinkedAsset', 'ScaledAsset')]
        inner_ = [x for a in ren['assets'] if a['type'] == 'StructuredAsset' for x in a['assets']]
        if outer_ and inner_:
            o_ = outer_[int(rng.integers(len(outer_)))]; i_ = inner_[int(rng.integers(len(inner_)))]
            old_name = o_['name']; o_['name'] = i_['name']
            maps['assets'] = {k_: (i_['name'] if v_ == old_name else v_) for k_, v_ in maps['assets'].items()}
            # (the inner asset keeps its entry: two spec names now map to the same text, in different name spaces)
            case.feature('outer_asset_renamed_like_wrapped_asset')
    p1 = None; has_struct = True
    case.key = env.spec_key([spec, ren]); case.sample = {'P': gen.abbreviate(spec), 'renaming': maps}; case.spec = {'P': spec, 'renamed': ren}
    if maps:
        r1 = flow.run_portfolio(ren)
        if not r1.ok:
            case.check('rename.setup_still_works', False, renaming=maps, error=flow.describe_error(r1))
        else:
            p1 = Snap(r1.op)
            rn = {}
            for k, v in maps['assets'].items(): rn[('a', k)] = v
            for k, v in maps['nodes'].items(): rn[('n', k)] = v
            # structured assets derive internal node names and variable names from asset names: compare those columns structurally only
            has_struct = any(('Structured' in t or 'Linked' in t) for t in gen.asset_types(spec))
            d = problem_diff(p0, p1, rtol=0., compare_mapping=not has_struct, rename=rn)
            case.check('rename.problem_identical', d is None, renaming=maps, diff=d)
            if r0.solved and r1.solved:
                v0, v1 = float(r0.res.value), float(r1.res.value)
                case.check('rename.value_equal', abs(v0 - v1) <= tolv * (1 + abs(v0)), value=v0, value_renamed=v1, renaming=maps)
                # outputs up to relabelling
                ok = True; bad = None
                single = len(r0.built.portfolio.nodes) == 1
                for a0 in r0.built.portfolio.assets:
                    a1n = maps['assets'][a0.name]
                    d0 = r0.out['DCF'][a0.name].values; d1 = r1.out['DCF'][a1n].values if a1n in r1.out['DCF'].columns else None
                    if d1 is None or np.abs(d0 - d1).max() > 1e-6 * (1 + np.abs(d0).max()):
                        ok = False; bad = ['DCF', a0.name, a1n]; break
                    for n in a0.nodes:
                        c0 = a0.name if single else '%s (%s)' % (a0.name, n.name)
                        c1 = a1n if single else '%s (%s)' % (a1n, maps['nodes'][n.name])
                        names1 = [(x.name if single else '%s (%s)' % (x.name, m.name)) for x in r1.built.portfolio.assets for m in x.nodes]
                        if names1.count(c1) > 1:
                            continue          # two (asset,node) pairs render to the same column text: output table ambiguous, no claim
                        if c1 not in r1.out['dispatch'].columns or np.abs(r0.out['dispatch'][c0].values - r1.out['dispatch'][c1].values).max() > 1e-6 * (1 + np.abs(r0.out['dispatch'][c0].values).max()):
                            ok = False; bad = ['dispatch', c0, c1]; break
                    if not ok:
                        break
                case.check('rename.outputs_equal_up_to_relabelling', ok, bad=bad, renaming=maps)
            elif isinstance(r0.res, str) != isinstance(r1.res, str) and 'inaccurate' not in (r0.res, r1.res):
                case.check('rename.value_equal', False, res=str(r0.res)[:20], res_renamed=str(r1.res)[:20], renaming=maps)
    tops_ = [a for a in spec['assets'] if a['type'] not in ('StructuredAsset', 'LinkedAsset', 'ScaledAsset')]
    if len(tops_) >= 2 and rng.random() < 0.4:
        # names rotated among the assets (every name stays in use, but for another asset), the renamed portfolio set up on the SAME Timegrid object
        # the original was set up on: same problem up to the renaming, same value
        import copy as _copy
        rot = _copy.deepcopy(spec)
        names_ = [a['name'] for a in tops_]
        sh_ = int(rng.integers(1, len(names_)))
        mp_ = {n_: names_[(i_ + sh_) % len(names_)] for i_, n_ in enumerate(names_)}
        for a in rot['assets']:
            if a['name'] in mp_ and a['type'] not in ('StructuredAsset', 'LinkedAsset', 'ScaledAsset'):
                a['name'] = mp_[a['name']]
        rr = flow.run_portfolio(rot, timegrid=r0.built.timegrid)
        if not rr.ok:
            case.check('rename.rotated_names_on_used_grid_work', False, rotation=mp_, error=flow.describe_error(rr))
        else:
            case.feature('names_rotated_on_used_grid')
            d = problem_diff(p0, Snap(rr.op), rtol=0., compare_mapping=False)
            case.check('rename.rotated_names_same_problem', d is None, rotation=mp_, diff=d)
            if r0.solved and rr.solved:
                case.check('rename.rotated_names_same_value', abs(float(r0.res.value) - float(rr.res.value)) <= tolv * (1 + abs(float(r0.res.value))), value=float(r0.res.value),
                           value_rotated=float(rr.res.value), rotation=mp_)
    if maps and p1 is not None and not has_struct and not any('Scaled' in t for t in gen.asset_types(spec)) and rng.random() < 0.5:
        # the renaming applied IN PLACE to the objects that were just used (node.name = ..., asset.name = ...), a new portfolio built from
        # them: the problem of the freshly built renamed objects
        try:
            from eaopack.portfolio import Portfolio
            with env.quiet(), attach.paused():
                objs = list(r0.built.portfolio.assets)
                seen_nodes = {}
                for o_ in objs:
                    for n_ in o_.nodes:
                        seen_nodes[id(n_)] = n_
                for n_ in seen_nodes.values():
                    n_.name = maps['nodes'][n_.name]
                for o_ in objs:
                    o_.name = maps['assets'][o_.name]
                op_ip = Portfolio(objs).setup_optim_problem(r0.built.prices, r0.built.timegrid)
            d_ip = problem_diff(Snap(op_ip), p1, rtol=0., compare_mapping=True)
            case.check('rename.in_place_on_used_objects_same_as_fresh', d_ip is None, renaming=maps, diff=d_ip)
        except Exception as e:
            case.check('rename.in_place_on_used_objects_same_as_fresh', False, renaming=maps, error='%s: %s' % (type(e).__name__, str(e)[:160]))
    # ---------------- the same RESULT read out through a portfolio that lists the same asset objects in another order (plain result / result of the
    #                  two-stage stochastic program): the output tables identify assets by name - same columns, same numbers
    if rng.random() < 0.5 and not mip and len(r0.built.portfolio.assets) > 1:
        try:
            import eaopack.io as eio
            import eaopack.stoch_lin_prog as SLP
            from eaopack.portfolio import Portfolio
            from ..spec import build
            with env.quiet(), attach.paused():
                bq = build(spec); Pq, tgq = bq.portfolio, bq.timegrid
                opq = Pq.setup_optim_problem(bq.prices, tgq)
                slp_mode = rng.random() < 0.6 and tgq.T > 2
                if slp_mode:
                    kq = int(rng.integers(1, tgq.T))
                    smp = [{q_: np.asarray(v_, float) for q_, v_ in gen.gen_prices(rng, tgq.T, sorted(spec['prices']), cap_levels=spec.get('_cap_levels')).items()} for _ in range(int(rng.integers(1, 4)))]
                    opq = SLP.make_slp(opq, Pq, tgq, tgq.timepoints[kq], smp)
                resq = opq.optimize()
                if not isinstance(resq, str):
                    out_a = eio.extract_output(Pq, opq, resq, bq.prices)
                    order = [int(i) for i in rng.permutation(len(Pq.assets))]
                    if order == sorted(order):
                        order = order[1:] + order[:1]
                    Pq2 = Portfolio([Pq.assets[i] for i in order])
                    Pq2.set_timegrid(tgq)
                    out_b = eio.extract_output(Pq2, opq, resq, bq.prices)
            if not isinstance(resq, str):
                case.feature('same_result_read_through_reordered_portfolio' + (':slp' if slp_mode else ''))
                okq = True; badq = None
                for tab in ('dispatch', 'DCF'):
                    ta, tb = out_a[tab], out_b[tab]
                    if set(ta.columns) != set(tb.columns):
                        okq = False; badq = [tab, 'columns differ', sorted(set(map(str, ta.columns)) ^ set(map(str, tb.columns)))[:4]]; break
                    for c_ in ta.columns:
                        va = ta[c_].values.astype(float); vb = tb[c_].values.astype(float)
                        if np.abs(va - vb).max() > 1e-9 * (1 + np.abs(va).max()):
                            okq = False; badq = [tab, str(c_), float(np.abs(va - vb).max())]; break
                    if not okq:
                        break
                case.check('permute.same_result_same_tables', okq, bad=badq, slp=slp_mode, order=order)
        except AssertionError:
            pass
        except Exception as e:
            case.event('reordered_readout_failed:' + type(e).__name__)
    # ---------------- permutation
    perm = [int(i) for i in rng.permutation(len(spec['assets']))]
    if perm == sorted(perm) and len(perm) > 1:
        perm = perm[1:] + perm[:1]
    ps = copy.deepcopy(spec); ps['assets'] = [ps['assets'][i] for i in perm]
    inner_perm = False
    if structs and rng.random() < 0.6:
        # the order of the assets given to the portfolio INSIDE a structured asset is permuted as well
        for sa in ps['assets']:
            if sa['type'] == 'StructuredAsset' and len(sa['assets']) > 1:
                q = [int(i) for i in rng.permutation(len(sa['assets']))]
                if q == sorted(q):
                    q = q[1:] + q[:1]
                sa['assets'] = [sa['assets'][i] for i in q]; inner_perm = True
        if inner_perm:
            case.feature('inner_permutation')
    case.spec['permutation'] = perm; case.spec['permuted'] = ps
    r2 = flow.run_portfolio(ps, do_extract=False)
    if not r2.ok:
        case.check('permute.setup_still_works', False, permutation=perm, error=flow.describe_error(r2))
    elif inner_perm:
        # (the structured asset's own variable order changes with the inner order: only what the property states - value - is compared)
        if r0.solved and r2.solved:
            v0, v2 = float(r0.res.value), float(r2.res.value)
            case.check('permute.value_equal', abs(v0 - v2) <= tolv * (1 + abs(v0)), value=v0, value_permuted=v2, permutation=perm, inner_permutation=True)
        elif isinstance(r0.res, str) != isinstance(r2.res, str) and 'inaccurate' not in (r0.res, r2.res):
            case.check('permute.value_equal', False, res=str(r0.res)[:20], res_permuted=str(r2.res)[:20], permutation=perm, inner_permutation=True)
    else:
        (pe0, k0), (pe2, k2) = flow.top_setups(r0.rec)[0], flow.top_setups(r2.rec)[0]
        by0 = {k.args['name']: k for k in k0}; by2 = {k.args['name']: k for k in k2}
        bad = None
        for nm in by0:
            a, b = by0[nm].snap, by2[nm].snap
            d = problem_diff(a, b, rtol=0., compare_mapping=True)
            if d:
                bad = [nm, d]; break
        case.check('permute.asset_blocks_identical', bad is None, permutation=perm, bad=bad)
        # nodal rows as a set after the column permutation implied by the asset offsets
        def colmap(kids):
            m = {}; pos = 0
            for k in kids:
                for j in range(len(k.snap.c)):
                    m[pos + j] = (k.args['name'], j)
                pos += len(k.snap.c)
            return m
        n0 = nodal_rows(pe0.snap, colmap(k0)); n2 = nodal_rows(pe2.snap, colmap(k2))
        same = set(n0) == set(n2) and all(set(n0[k]) == set(n2[k]) and all(abs(n0[k][c] - n2[k][c]) <= 1e-12 for c in n0[k]) for k in n0)
        case.check('permute.nodal_rows_identical', same, permutation=perm, n_rows=len(n0), n_rows_perm=len(n2))
        if r0.solved and r2.solved:
            v0, v2 = float(r0.res.value), float(r2.res.value)
            case.check('permute.value_equal', abs(v0 - v2) <= tolv * (1 + abs(v0)), value=v0, value_permuted=v2, permutation=perm)
        elif isinstance(r0.res, str) != isinstance(r2.res, str) and 'inaccurate' not in (r0.res, r2.res):
            case.check('permute.value_equal', False, res=str(r0.res)[:20], res_permuted=str(r2.res)[:20], permutation=perm)
    if not spec['grid']['freq'].endswith('d') and rng.random() < 0.3:
        # the permuted portfolio through the SPLIT set-up (interval problems concatenated, variables of orders outside an interval kept but unmapped):
        # same value; what is reported per asset still balances per node and adds up to the value (necessary for 'same dispatch and cash flows';
        # the dispatch itself is not compared, an LP may have several optima)
        from ..mon_output import mon_balance_output, mon_value_accounting
        size = gen.pick(rng, ['d', '12h', '6h'])
        rs0 = flow.run_portfolio(spec, split=size); rs2 = flow.run_portfolio(ps, split=size)
        case.feature('split_permutation:' + size)
        if rs0.ok and rs2.ok:
            if rs0.solved and rs2.solved:
                v0, v2 = float(rs0.res.value), float(rs2.res.value)
                case.check('permute.split_value_equal', abs(v0 - v2) <= tolv * (1 + abs(v0)), value=v0, value_permuted=v2, permutation=perm, split=size)
                mon_balance_output(case, rs2.built.portfolio, rs2.out, clause='permute.split_output_balanced')
                mon_value_accounting(case, rs2.built.portfolio, rs2.res, rs2.out, flow.top_setups(rs2.rec), rs2.built.timegrid.T, clause='permute.split_value')
        elif rs0.ok != rs2.ok:
            case.check('permute.split_setup_still_works', False, permutation=perm, split=size, error=flow.describe_error(rs0 if not rs0.ok else rs2))
    multi = any(len(a.get('nodes') or []) > 1 for a in spec['assets'])
    waccs = {a.get('wacc', 0) for a in spec['assets']}
    case.nontrivial = len(spec['assets']) >= 3 and (multi or len(waccs) > 1)
