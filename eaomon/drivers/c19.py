"""C19 Time grid and interval data: every step, and only the right interval, counts."""
import numpy as np
import pandas as pd
from pandas.tseries.frequencies import to_offset
from .. import env, attach, gen
from ..mon_grid import mon_timegrid, model_values_to_grid
from ..spec import local_ok

PROPERTY = 'C19'
CASES = {'quick': 1440, 'thorough': 20000}
BUDGET_S = {'quick': 120, 'thorough': 1500}
SUITE_UNDER_MONITORS = True      # thorough tier: the repository's own tests are an extra workload under the passive monitors
RULE = ('case = one random grid (start around DST switches / month ends, freq in 15min..d plus W/MS, unit h/d/min, 5 zones) '
        'constructed through the real Timegrid, followed by restriction windows in every placement, a coarse restricted grid, '
        'an interval list pushed through values_to_grid and price data through prices_to_grid; the invariant monitor runs at every '
        'Timegrid.__init__ return. Non-trivial: the case evaluated at least one deciding clause on a grid with T>=2; '
        'distinct = distinct (grid, windows, interval list) hashes.')
ASSUMPTIONS = ['naive local times that do not exist or are ambiguous in the grid zone are never generated',
               'for an implicit end of the last interval only the documented generous extension (2x the last gap) is claimed',
               'overlap of two intervals without a common grid point: no claim', 'implicit ends (end = next start) are only generated with sorted starts',
               'grid points of anchored frequencies (W, MS) are taken from pandas offsets; plain frequencies from UTC / calendar arithmetic']
MIN_NONVACUOUS = {'quick': {'grid.dt_unequal_steps': 34, 'restricted.index_subset': 170, 'coarse.partition_without_loss': 68,
                            'values.match_model': 170, 'values.overlap_rejected': 25, 'prices.passthrough': 170, 'grid.points_match_model': 510},
                  'thorough': {'grid.dt_unequal_steps': 400, 'restricted.index_subset': 3000, 'coarse.partition_without_loss': 1000,
                               'values.match_model': 3000, 'values.overlap_rejected': 300, 'prices.passthrough': 3000}}
COARSER = {'15min': ['h', '2h'], '30min': ['h', '2h', '4h'], 'h': ['2h', '4h', 'd'], '2h': ['4h', 'd'], '4h': ['d', '2d'], 'd': ['2d', 'W']}


def gen_intervals(rng, g, tz_aware=False):
    """interval list around the horizon: sorted/unsorted, with/without ends, overlapping or not, naive or aware."""
    pts = gen.grid_points(g); T = len(pts)
    tz = g.get('tz')
    d = gen.fdelta(g['freq'])
    n = int(rng.integers(1, 6))
    kind = gen.pick(rng, ['tiling', 'tiling', 'gaps', 'overlap', 'overlap_far', 'implicit', 'implicit', 'single_noend', 'scalar', 'unsorted_explicit'])
    base = pd.Timestamp(g['start'])
    cuts = sorted(set(int(x) for x in rng.integers(-3, T + 4, n + 1)))
    if len(cuts) < 2:
        cuts = [0, T]
    def at(i):
        if 0 <= i < T:
            return pd.Timestamp(gen.naive_str(pts[i]))
        if i >= T:
            return pd.Timestamp(g['end']) + d * (i - T)
        return base + d * i
    starts = [at(i) for i in cuts[:-1]]; ends = [at(i) for i in cuts[1:]]
    if rng.random() < 0.3:   # off-grid bounds (one common offset: the starts stay sorted, implicit ends are only defined for sorted starts)
        shift = pd.Timedelta(minutes=int(rng.integers(1, 50)))
        starts = [s + shift for s in starts]
    vals = [float(np.round(rng.normal(5, 3), 2)) for _ in starts]
    inp = {'start': starts, 'end': ends, 'values': vals}
    if kind == 'gaps' and len(starts) > 1:
        k = int(rng.integers(0, len(starts)))
        inp = {'start': starts[:k] + starts[k + 1:], 'end': ends[:k] + ends[k + 1:], 'values': vals[:k] + vals[k + 1:]}
        if not inp['start']:
            inp = {'start': starts, 'end': ends, 'values': vals}
    elif kind == 'overlap' and len(starts) > 1:
        k = int(rng.integers(1, len(starts)))
        ends = list(ends); ends[k - 1] = ends[k - 1] + d * int(rng.integers(1, 4))
        inp = {'start': starts, 'end': ends, 'values': vals}
    elif kind == 'overlap_far' and len(starts) > 1:
        # a correction appended at the END of the list (or put first) that overlaps an interval which is not its neighbour in the list
        k = int(rng.integers(0, len(starts) - 1)) if rng.random() < 0.7 else int(rng.integers(0, len(starts)))
        extra = (starts[k], ends[k], float(np.round(rng.normal(5, 3), 2)))
        if rng.random() < 0.7:
            inp = {'start': starts + [extra[0]], 'end': list(ends) + [extra[1]], 'values': vals + [extra[2]]}
        else:
            k2 = len(starts) - 1
            inp = {'start': [starts[k2]] + starts, 'end': [ends[k2]] + list(ends), 'values': [extra[2]] + vals}
    elif kind == 'implicit':
        inp = {'start': starts, 'values': vals}
    elif kind == 'unsorted_explicit' and len(starts) > 2:
        p = list(rng.permutation(len(starts)))
        inp = {'start': [starts[i] for i in p], 'end': [ends[i] for i in p], 'values': [vals[i] for i in p]}
    elif kind == 'single_noend':
        inp = {'start': [starts[0]], 'values': [vals[0]]}
    elif kind == 'scalar':
        inp = {'start': starts[0], 'end': ends[-1], 'values': vals[0]}
    # all bounds must exist in the zone
    allb = []
    for k in ('start', 'end'):
        if k in inp:
            allb += list(inp[k]) if isinstance(inp[k], list) else [inp[k]]
    if not all(local_ok(str(b), tz) for b in allb):
        return None, kind
    if tz_aware and tz is not None:
        for k in ('start', 'end'):
            if k in inp:
                inp[k] = [b.tz_localize(tz) for b in inp[k]] if isinstance(inp[k], list) else inp[k].tz_localize(tz)
    form = gen.pick(rng, ['timestamp', 'datetime', 'dtindex', 'array'])
    for k in ('start', 'end'):
        if k in inp and isinstance(inp[k], list):
            if form == 'datetime':
                inp[k] = [b.to_pydatetime() for b in inp[k]]
            elif form == 'dtindex' and len(inp[k]) > 0:
                inp[k] = pd.DatetimeIndex(inp[k])
            elif form == 'array':
                inp[k] = np.array(inp[k], dtype=object)
    return inp, kind


def run_case(rng, tier, case):
    from eaopack.basic_classes import Timegrid
    mode = gen.pick(rng, ['plain', 'plain', 'plain', 'anchored'])
    if mode == 'plain':
        g = gen.gen_grid(rng, steps=(2, 60))
    else:
        g = gen.gen_grid(rng, freqs=['h', 'd'], steps=(30, 60))
        # anchored frequency on the same span: W or MS, start on or off the anchor
        fr = gen.pick(rng, ['W', 'MS', 'W-MON'])
        s = pd.Timestamp(g['start']).normalize()
        if rng.random() < 0.6:
            s = to_offset(fr).rollforward(s)
        e = s + pd.Timedelta(days=int(rng.integers(15, 100)))
        g = {'start': str(s), 'end': str(e), 'freq': fr, 'unit': g['unit'], 'tz': g['tz']}
        if not (local_ok(g['start'], g['tz']) and local_ok(g['end'], g['tz'])):
            case.reject('nonexistent local time'); return
    if rng.random() < 0.15 and mode == 'plain':
        # end that is not a grid point
        g['end'] = str(pd.Timestamp(g['end']) + pd.Timedelta(minutes=int(gen.pick(rng, [7, 20, 45]))))
        if not local_ok(g['end'], g['tz']):
            case.reject('nonexistent local time'); return
    case.feature('freq:' + g['freq'], 'tz:' + str(g['tz']), 'unit:' + g['unit'])
    desc = {'grid': g, 'windows': [], 'intervals': None}
    with attach.recording() as rec:
        with env.quiet():
            form = gen.pick(rng, ['timestamp', 'datetime', 'str'])
            s_in = pd.Timestamp(g['start']); e_in = pd.Timestamp(g['end'])
            if form == 'datetime':
                s_in = s_in.to_pydatetime(); e_in = e_in.to_pydatetime()
            elif form == 'str':
                s_in = g['start']; e_in = g['end']
            try:
                tg = Timegrid(s_in, e_in, freq=g['freq'], main_time_unit=g['unit'], timezone=g['tz'])
            except AssertionError as ex:
                case.reject('Timegrid assertion: ' + str(ex)); return
            # restriction windows
            for _ in range(3):
                ws, we, kind = gen.gen_window(rng, g, offgrid=0.3) if mode == 'plain' else (None, None, 'none')
                desc['windows'].append([ws, we])
                ws_in = None if ws is None else pd.Timestamp(ws); we_in = None if we is None else pd.Timestamp(we)
                if g['tz'] is not None and rng.random() < 0.5:
                    # the same instants given zone-aware: in the grid's zone or quoted in another zone
                    oz = gen.pick(rng, [g['tz'], 'UTC', 'Asia/Kolkata', 'America/New_York'])
                    ws_in = None if ws_in is None else ws_in.tz_localize(g['tz']).tz_convert(oz)
                    we_in = None if we_in is None else we_in.tz_localize(g['tz']).tz_convert(oz)
                    desc['windows'][-1] += ['aware:' + oz]
                    case.feature('window_zone_aware' + ('' if oz == g['tz'] else '_other_zone'))
                try:
                    tg.set_restricted_grid(ws_in, we_in)
                except Exception as ex:
                    case.check('restricted.setup_works', False, window=desc['windows'][-1], grid=g, error='%s: %s' % (type(ex).__name__, str(ex)[:160]))
            # coarse restricted grid (aligned and unaligned windows)
            if mode == 'plain' and g['freq'] in COARSER and tg.T >= 2:
                cf = gen.pick(rng, COARSER[g['freq']])
                ws, we, kind = gen.gen_window(rng, g, kinds=['none', 'none', 'inside', 'straddle_start', 'straddle_end'], offgrid=0.25)
                desc['coarse'] = [cf, ws, we]
                cs_in = None if ws is None else pd.Timestamp(ws); ce_in = None if we is None else pd.Timestamp(we)
                if g['tz'] is not None and rng.random() < 0.35:
                    # the same instants zone-aware: in the grid's zone, quoted in another zone, or with a fixed offset (datetime.fromisoformat('...+01:00'))
                    oz = gen.pick(rng, [g['tz'], 'UTC', 'Asia/Kolkata', 'America/New_York', 'offset'])
                    conv = (lambda t: t.tz_localize(g['tz']).tz_convert(oz)) if oz != 'offset' else (lambda t: __import__('datetime').datetime.fromisoformat(t.tz_localize(g['tz']).isoformat()))
                    cs_in = None if cs_in is None else conv(cs_in); ce_in = None if ce_in is None else conv(ce_in)
                    desc['coarse'] += ['aware:' + oz]
                    case.feature('coarse_window_zone_aware' + ('' if oz == g['tz'] else '_other_zone'))
                try:
                    tg.set_restricted_grid(cs_in, ce_in, cf)
                    case.feature('coarse:' + g['freq'] + '->' + cf)
                    # interval data on an asset with that own frequency: each coarse step gets the value of the interval that contains ITS grid point
                    # (a boundary strictly inside a coarse step does not blend the two values)
                    try:
                        rg = tg.restricted
                        lists = [list(map(int, x)) for x in rg.I_minor_in_major]
                        inner = [x[len(x) // 2] for x in lists if len(x) >= 2]
                        if inner and rng.random() < 0.6:
                            import eaopack.assets as EA
                            from eaopack.basic_classes import Node
                            jmid = int(inner[int(rng.integers(len(inner)))])
                            mid_ = pd.Timestamp(tg.timepoints[jmid])
                            far0_ = pd.Timestamp(tg.timepoints[0]) - pd.Timedelta(days=400); far1_ = pd.Timestamp(tg.timepoints[-1]) + pd.Timedelta(days=400)
                            v1_, v2_ = 2., 10.
                            pa = EA.SimpleContract(name='probe', nodes=Node('n'), min_cap=0., max_cap={'start': [far0_, mid_], 'end': [mid_, far1_], 'values': [v1_, v2_]}, freq=cf,
                                                   start=cs_in, end=ce_in)
                            tg_p = Timegrid(s_in, e_in, freq=g['freq'], main_time_unit=g['unit'], timezone=g['tz'])
                            op_p = pa.setup_optim_problem({}, tg_p)
                            rgp = tg_p.restricted
                            want_u = np.array([(v1_ if pd.Timestamp(p_) < mid_ else v2_) for p_ in rgp.timepoints]) * np.asarray(rgp.dt, float)
                            got_u = np.asarray(op_p.u, float)
                            oku = len(got_u) == len(want_u) and bool(np.allclose(got_u, want_u, rtol=1e-9, atol=1e-12))
                            case.check('values.coarse_asset_takes_value_at_its_grid_point', oku, window=desc.get('coarse'), grid=g, boundary=str(mid_), got=got_u[:6].tolist(), want=want_u[:6].tolist())
                    except AssertionError:
                        pass
                    except Exception as exq:
                        case.check('values.coarse_asset_takes_value_at_its_grid_point', False, window=desc.get('coarse'), grid=g, error='%s: %s' % (type(exq).__name__, str(exq)[:160]))
                except ValueError as ex:
                    # a coarse interval without any fine point (window narrower than one coarse step): no grid produced
                    case.feature('coarse_empty_interval')
                except Exception as ex:
                    case.check('restricted.setup_works', False, window=desc.get('coarse'), grid=g, error='%s: %s' % (type(ex).__name__, str(ex)[:160]))
            # the grid stored and loaded (JSON: how portfolios with their grid are kept / handed to run_from_json): the same points, the same step lengths
            # in the same main time unit, the same zone
            if rng.random() < 0.25:
                try:
                    import eaopack.serialization as ser
                    tg_main = Timegrid(s_in, e_in, freq=g['freq'], main_time_unit=g['unit'], timezone=g['tz'])
                    tgj = ser.load_from_json(ser.to_json(tg_main))
                    okj = (len(tgj.timepoints) == len(tg_main.timepoints) and all(pd.Timestamp(a_) == pd.Timestamp(b_) for a_, b_ in zip(tgj.timepoints, tg_main.timepoints))
                           and np.allclose(np.asarray(tgj.dt, float), np.asarray(tg_main.dt, float), rtol=1e-12, atol=0.) and tgj.main_time_unit == tg_main.main_time_unit
                           and str(tgj.tz) == str(tg_main.tz) and tgj.freq == tg_main.freq)
                    case.check('grid.json_round_trip_same_grid', bool(okj), grid=g, unit_loaded=str(tgj.main_time_unit), freq_loaded=str(tgj.freq), T_loaded=int(tgj.T),
                               dt_loaded=[float(x) for x in np.asarray(tgj.dt, float)[:3]], dt=[float(x) for x in np.asarray(tg_main.dt, float)[:3]])
                except Exception as ex:
                    case.check('grid.json_round_trip_same_grid', False, grid=g, error='%s: %s' % (type(ex).__name__, str(ex)[:160]))
            # interval data
            inp, ikind = (gen_intervals(rng, g, tz_aware=rng.random() < 0.3) if mode == 'plain' else (None, None))
            if inp is not None:
                import copy
                desc['intervals'] = {k: [str(x) for x in (v if isinstance(v, (list, np.ndarray, pd.DatetimeIndex)) else [v])] for k, v in inp.items()}
                case.feature('intervals:' + ikind)
                before = repr(inp)
                exp, must_raise, claim = model_values_to_grid(pd.DatetimeIndex(tg.timepoints), tg.tz, inp)
                try:
                    got = tg.values_to_grid(inp)
                    raised = None
                except ValueError as ex:
                    got = None; raised = ex
                if must_raise:
                    case.check('values.overlap_rejected', raised is not None, intervals=desc['intervals'], grid=g)
                else:
                    if raised is not None:
                        case.check('values.no_spurious_error', False, intervals=desc['intervals'], grid=g, error=str(raised))
                    else:
                        same = np.array_equal(np.isnan(got[claim]), np.isnan(exp[claim])) and np.allclose(got[claim][~np.isnan(exp[claim])], exp[claim][~np.isnan(exp[claim])], rtol=0, atol=0)
                        case.check('values.match_model', same, nonvacuous=bool((~np.isnan(exp)).any()), intervals=desc['intervals'], grid=g,
                                   got=list(got[:12]), want=list(exp[:12]))
                        case.check('values.undefined_outside', bool(np.all(np.isnan(got[claim & np.isnan(exp)]))),
                                   nonvacuous=bool(np.isnan(exp[claim]).any()), intervals=desc['intervals'], grid=g)
                case.check('values.input_untouched', repr(inp) == before, intervals=desc['intervals'])
            # already-gridded prices pass through unchanged
            if tg.T > 0:
                arr = np.round(rng.normal(10, 5, tg.T), 4)
                kind = gen.pick(rng, ['dict_array', 'dict_list', 'df_index', 'df_range', 'df_intindex', 'df_gridI', 'dict_series'])
                if kind == 'dict_array':
                    pr = {'a': arr.copy(), 'b': arr[::-1].copy()}
                elif kind == 'dict_list':
                    pr = {'a': list(arr), 'b': list(arr[::-1])}
                elif kind == 'df_index':
                    pr = pd.DataFrame({'a': arr, 'b': arr[::-1]}, index=tg.timepoints)
                elif kind == 'df_intindex':
                    pr = pd.DataFrame({'a': arr, 'b': arr[::-1]}, index=np.arange(tg.T))            # integer labels, not a RangeIndex
                elif kind == 'df_gridI':
                    pr = pd.DataFrame({'a': arr, 'b': arr[::-1]}, index=np.asarray(tg.I))
                elif kind == 'dict_series':
                    pr = {'a': pd.Series(arr, index=np.arange(tg.T)), 'b': pd.Series(arr[::-1], index=np.arange(tg.T))}
                else:
                    pr = pd.DataFrame({'a': arr, 'b': arr[::-1]})
                idx_before = None if not isinstance(pr, pd.DataFrame) else pr.index.copy()
                out = tg.prices_to_grid(pr)
                ok = (list(out.index) == list(tg.timepoints)) and np.array_equal(out['a'].values, arr) and np.array_equal(out['b'].values, arr[::-1])
                case.check('prices.passthrough', bool(ok), kind=kind, grid=g)
                if idx_before is not None:
                    # "pass through unchanged" includes the caller's object: the same frame gives the same result a second time and keeps its labels
                    out2 = tg.prices_to_grid(pr)
                    case.check('prices.input_untouched', bool(pr.index.equals(idx_before)) and np.array_equal(out2['a'].values, arr), kind=kind,
                               index_before=type(idx_before).__name__, index_after=type(pr.index).__name__)
                case.feature('prices:' + kind)
    for ev in rec.of('timegrid'):
        mon_timegrid(case, ev)
    case.event('timegrid_init', rec.counts['timegrid'])
    case.nontrivial = (sum(case.evaluated.values()) > 5)
    case.key = env.spec_key(desc)
    case.sample = desc
    case.spec = desc


def _is_f14(v, rec):
    # anchored frequency (W, MS, ...) whose start is not on the anchor: first grid point is the first anchor after the start
    if v.get('clause') == 'grid.first_is_start' and v.get('anchored') is True:
        return True
    # same mechanism on a coarse restricted grid: the fine steps before the first anchor are in no coarse interval
    return v.get('clause') == 'coarse.partition_without_loss' and v.get('anchored') is True and v.get('head_lost_only') is True


def _is_f46b(v, rec):
    # coarse restricted grid in calendar days whose window starts at a wall-clock time that is ambiguous / missing on a later day of the window (same
    # mechanism as F46 in C13): pd.date_range raises inside Timegrid.__init__
    w = v.get('window')
    return (v.get('clause') == 'restricted.setup_works' and isinstance(w, list) and len(w) in (3, 4) and str(w[0]).endswith('d')
            and ('AmbiguousTimeError' in str(v.get('error', '')) or 'NonExistentTimeError' in str(v.get('error', ''))))


CLASSIFIERS = {'c19_coarse_daily_step_on_ambiguous_wall_clock_time': _is_f46b, 'c19_anchored_start_off_anchor': _is_f14}
