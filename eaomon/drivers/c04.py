"""C04 Value accounting: reported value = sum of per-asset discounted cash flows."""
import numpy as np
from .. import env, attach, gen, flow
from ..mon_output import mon_value_accounting

PROPERTY = 'C04'
gen.OFFGRID = 0.12      # some asset windows start or end strictly between two grid points
CASES = {'quick': 504, 'thorough': 4032}
BUDGET_S = {'quick': 200, 'thorough': 1800}
SUITE_UNDER_MONITORS = True      # thorough tier: the repository's own tests are an extra workload under the passive monitors
RULE = ('case = one random portfolio mixing periodic, coarse-frequency, scaled and structured assets, order books (some orders outside the '
        'horizon), CHP/Plant (appended booleans), storages, with wacc != 0 in a part of the assets, optimised monolithically or split (partial '
        'last interval) through the real code and extracted; while Portfolio.setup_optim_problem runs the wrapper records each asset\'s own '
        'sub-problem (length, cost vector) in call order - this gives each asset\'s variable range without using the mapping. At extract_output '
        'return: sum(DCF) = value = summary value; per asset sum_t DCF = -c_asset . x[range_asset]. Non-trivial: >=1 asset with |cash flow|>1e-6; '
        'distinct = distinct spec hashes.')
ASSUMPTIONS = ['tolerance 1e-6*(1+|value|+sum|DCF|)', 'unsolved / inaccurate results make no claim (counted)']
MIN_NONVACUOUS = {'quick': {'value.asset_dcf_is_own_cost': 750, 'value.total_is_sum_of_dcf': 250},
                  'thorough': {'value.asset_dcf_is_own_cost': 6000, 'value.total_is_sum_of_dcf': 2000}}
KINDS = ('contract', 'transport', 'storage', 'multi', 'orderbook', 'orderbook', 'plant', 'chp', 'linked', 'chp_minload', 'structured', 'scaled', 'scaled', 'coarse', 'coarse',
         'periodic', 'periodic', 'storage_blocks', 'storage_mip')


def run_slp_case(rng, tier, case):
    """'every optimised portfolio': a two-stage stochastic problem (make_slp) optimised and read back through extract_output - the reported value equals
    the sum of the cash-flow table (assets with several mapping rows per variable included)."""
    import eaopack.io as eio
    import eaopack.stoch_lin_prog as SLP
    from ..spec import build
    spec = gen.strip_private(gen.gen_lp_portfolio(rng, grid_kw={'steps': (6, 18)}, types=('contract', 'transport', 'transport', 'storage', 'multi'), n_assets=(1, 4), n_nodes=(2, 3)))
    case.feature('slp')
    for t in gen.asset_types(spec):
        case.feature('type:' + t)
    case.key = env.spec_key(spec); case.sample = dict(gen.abbreviate(spec), slp=True); case.spec = spec
    try:
        with env.quiet():
            b = build(spec); P, tg = b.portfolio, b.timegrid
            k = int(rng.integers(1, tg.T))
            samples = [{q: np.asarray(v, float) for q, v in gen.gen_prices(rng, tg.T, sorted(spec['prices'])).items()} for _ in range(int(rng.integers(1, 4)))]
            op = SLP.make_slp(P.setup_optim_problem(b.prices, tg), P, tg, tg.timepoints[k], samples)
            res = op.optimize()
    except Exception as e:
        case.reject('slp set-up / optimise: %s %s' % (type(e).__name__, str(e)[:120])); return
    if isinstance(res, str):
        case.inconc('slp not solved: ' + res); return
    try:
        with env.quiet():
            out = eio.extract_output(P, op, res, b.prices)
    except Exception as e:
        case.check('value.slp_extraction_works', False, error='%s: %s' % (type(e).__name__, str(e)[:160])); return
    dcf = out['DCF']; v = float(res.value); tot = float(dcf.values.sum())
    case.check('value.total_is_sum_of_dcf', abs(tot - v) <= 1e-6 * (1. + abs(v) + float(np.abs(dcf.values).sum())), value=v, sum_dcf=tot, slp=True, boundary=k, samples=len(samples))
    case.nontrivial = abs(v) > 1e-6


def run_case(rng, tier, case):
    if rng.random() < 0.06:
        return run_slp_case(rng, tier, case)
    spec = gen.gen_mixed_portfolio(rng, kinds=KINDS, grid_kw={'steps': (4, 26)}, n_assets=(2, 5), n_nodes=(1, 3))
    split = None
    if rng.random() < 0.35 and not spec['grid']['freq'].endswith('d'):
        split = gen.pick(rng, ['d', '12h', '6h', '8h'])
        case.feature('split:' + split)
    for t in gen.asset_types(spec):
        case.feature('type:' + t)
    structs = [a for a in spec['assets'] if a['type'] == 'StructuredAsset']
    if structs and rng.random() < 0.4:
        # names only have to be unique within one portfolio: an outer asset carries the name of an asset wrapped inside a structured asset
        inner = gen.pick(rng, structs[0]['assets'])['name']
        outer = [a for a in spec['assets'] if a['type'] not in ('StructuredAsset', 'LinkedAsset', 'ScaledAsset') and not a['name'].startswith('mkt')]
        if outer:
            gen.pick(rng, outer)['name'] = inner
            case.feature('outer_asset_named_like_wrapped_asset')
    case.key = env.spec_key(gen.strip_private(spec)); case.sample = dict(gen.abbreviate(spec), split=split); case.spec = spec
    one_call = rng.random() < 0.2          # a fifth of the cases go through the documented shortcut eaopack.io.optimize
    if one_call:
        case.feature('route:io.optimize')
    r = flow.run_portfolio(spec, split=split, one_call=one_call, data_form=gen.pick(rng, ['dict', 'frame_time', 'frame_pos']) if one_call else 'dict')
    if not r.ok:
        case.reject(flow.describe_error(r)); return
    if not r.solved:
        case.inconc('not solved: ' + str(r.res)); return
    setups = flow.top_setups(r.rec)
    nt = mon_value_accounting(case, r.built.portfolio, r.res, r.out, setups, r.built.timegrid.T)
    if rng.random() < 0.3:
        # the same problem object optimised a SECOND time (another solver run, a check of an earlier result): what that call returns is accounted
        # for like any other result
        import eaopack.io as eio
        try:
            with env.quiet():
                res_2 = r.op.optimize()
                out_2 = None if isinstance(res_2, str) else eio.extract_output(r.built.portfolio, r.op, res_2, r.built.prices)
            if out_2 is not None:
                case.feature('second_optimize_on_same_problem' + (':split' if split else ''))
                mon_value_accounting(case, r.built.portfolio, res_2, out_2, setups, r.built.timegrid.T)
                tolv = (1e-6 if not gen.is_mip(spec) else 2e-3) * (1 + abs(float(r.res.value)))
                case.check('value.second_optimize_same_value', abs(float(res_2.value) - float(r.res.value)) <= tolv, first=float(r.res.value), second=float(res_2.value), split=split)
        except Exception as e:
            case.check('value.second_optimize_works', False, split=split, error='%s: %s' % (type(e).__name__, str(e)[:160]))
    if not one_call and rng.random() < (0.5 if split else 0.15):
        # rolling re-planning: the same portfolio set up again with the first part of the horizon fixed to the solution just found (for a split
        # problem: whole intervals are fixed) - the value reported for that run is again the sum of its cash-flow table
        T_ = r.built.timegrid.T
        kq = int(rng.integers(max(1, T_ // 3), T_ + 1))
        rfx = flow.run_portfolio(spec, split=split, built=r.built, fix_time_window={'I': np.arange(T_) < kq, 'x': np.asarray(r.res.x, float).copy()})
        if rfx.ok and rfx.solved:
            case.feature('rerun_with_fixed_window' + (':split' if split else ''))
            mon_value_accounting(case, r.built.portfolio, rfx.res, rfx.out, flow.top_setups(rfx.rec), T_)
            tolv = (1e-5 if not gen.is_mip(spec) else 2e-3) * (1 + abs(float(r.res.value)))
            case.check('value.fixed_rerun_same_value', abs(float(rfx.res.value) - float(r.res.value)) <= tolv, first=float(r.res.value), fixed_rerun=float(rfx.res.value), split=split, steps_fixed=kq)
        elif not rfx.ok and rfx.stage in ('optimize', 'extract'):
            case.check('value.fixed_rerun_works', False, split=split, error=flow.describe_error(rfx))
    if gen.is_mip(spec) and not one_call and rng.random() < 0.5:
        # "every optimised portfolio": the documented relaxed run (make_soft_problem) of the same problem - what it returns is accounted for like any other result
        import eaopack.io as eio
        try:
            with env.quiet():
                res_s = r.op.optimize(make_soft_problem=True)
                out_s = None if isinstance(res_s, str) else eio.extract_output(r.built.portfolio, r.op, res_s, r.built.prices)
            if out_s is not None:
                case.feature('relaxed_run' + (':split' if split else ''))
                mon_value_accounting(case, r.built.portfolio, res_s, out_s, setups, r.built.timegrid.T)
        except Exception as e:
            case.check('value.relaxed_run_works', False, split=split, error='%s: %s' % (type(e).__name__, str(e)[:160]))
    if not split and not gen.is_mip(spec) and rng.random() < 0.25:
        # "every optimised portfolio": the robust target (spelled as users spell it) on the same problem object, extracted the same way
        import eaopack.io as eio
        try:
            with env.quiet():
                P = r.built.portfolio
                scen = [{k: np.asarray(v, float) for k, v in gen.gen_prices(rng, r.built.timegrid.T, sorted(spec['prices']), cap_levels=spec.get('_cap_levels')).items()} for _ in range(2)]
                cs = P.create_cost_samples(scen, r.built.timegrid)
                tname = gen.pick(rng, ['robust', 'Robust', 'ROBUST'])
                res_r = r.op.optimize(target=tname, samples=cs)
                out_r = None if isinstance(res_r, str) else eio.extract_output(P, r.op, res_r, r.built.prices)
            if out_r is not None:
                case.feature('target:' + tname)
                mon_value_accounting(case, P, res_r, out_r, setups, r.built.timegrid.T)
        except Exception as e:
            case.check('value.robust_run_works', False, error='%s: %s' % (type(e).__name__, str(e)[:160]))
    case.event('portfolio_setup', len(setups)); case.event('asset_setup', r.rec.counts['asset_setup']); case.event('extract', r.rec.counts['extract'])
    case.nontrivial = bool(nt)
