"""C02 Assembled LP means what the asset documentation says (reference equivalence)."""
import numpy as np
from .. import env, attach, gen, flow, solve
from ..refmodel import RefLP, eao_point

PROPERTY = 'C02'
gen.OFFGRID = 0.12      # some asset windows start or end strictly between two grid points
CASES = {'quick': 540, 'thorough': 4320}
BUDGET_S = {'quick': 200, 'thorough': 1800}
RULE = ('case = one random portfolio over {SimpleContract, Contract (spread, time-varying capacity dictionaries, min/max take partly outside the '
        'horizon), Transport/ExtendedTransport (efficiency, per-flow costs, take), Storage (size, rates, efficiency, start/end level, inflow, '
        'in/out/holding costs, one or two nodes), MultiCommodityContract}, 1-3 nodes, per-asset windows and wacc, grids in 15min..d x units h/d/min x '
        '5 zones around DST; solved by the real code and by the independent textbook LP built from the spec (HiGHS). Clauses: optimal values '
        'agree; feasibility verdicts agree; EAO\'s per-variable solution mapped to reference variables satisfies every reference bound/row and '
        'gives the same objective. Non-trivial: both solved and >=2 asset classes carry flow; distinct = spec hashes.')
ASSUMPTIONS = ['discounting to the END of each step (the convention the suite pins)', 'holding cost is charged on the dispatch-driven part of the level '
               '(documented: constant contribution of inflow not part of the value; start-level constant likewise)',
               'transports against their nominal direction (capacities <= 0) pay their costs on the absolute flow and are generated with efficiency 1; two-directional transports only without costs (EAO rejects the others)',
               'storage block_size / MIP options / coarse frequency / periodicity are outside C02 (covered by C05/C13)',
               'value tolerance 1e-5 relative, feasibility 1e-6 scaled']
MIN_NONVACUOUS = {'quick': {'ref.value_equal': 225, 'ref.eao_point_feasible_in_reference': 225, 'ref.feasibility_verdicts_agree': 300},
                  'thorough': {'ref.value_equal': 1800, 'ref.eao_point_feasible_in_reference': 1800}}


def run_case(rng, tier, case):
    spec = gen.gen_lp_portfolio(rng, grid_kw={'steps': (4, 30), 'dst': bool(rng.random() < 0.2)})      # (a fifth of the horizons contains a clock change: calendar-day steps of 23 / 25 h)
    for a_ in spec['assets']:
        if a_['type'] == 'Storage' and rng.random() < 0.3:
            a_['cost_store'] = gen.r2(gen.pick(rng, [0.05, 0.2]) * gen.UNIT_F[spec['grid']['unit']])      # holding costs that matter
    for t in gen.asset_types(spec):
        case.feature('type:' + t)
    g = spec['grid']
    case.feature('tz:' + str(g['tz']), 'freq:' + g['freq'], 'unit:' + g['unit'])
    for a in spec['assets']:
        if a.get('_window'):
            case.feature('window:' + a['_window'])
        for k in ('min_take', 'max_take'):
            if a.get(k):
                case.feature(k)
        if isinstance(a.get('max_cap'), dict):
            case.feature('dict_capacity')
        if a['type'] == 'Storage':
            if a.get('inflow'): case.feature('storage_inflow')
            if a.get('eff_in', 1) != 1: case.feature('storage_eff')
            if len(a['nodes']) == 2: case.feature('storage_two_nodes')
            if a.get('start_level') != a.get('end_level'): case.feature('storage_start_ne_end')
            if a.get('cost_store'): case.feature('storage_holding_cost')
    case.key = env.spec_key(gen.strip_private(spec)); case.sample = gen.abbreviate(spec); case.spec = spec
    via_json = rng.random() < 0.12          # the portfolio with its grid stored and loaded (JSON) before use: still the portfolio and the grid that were described
    if via_json:
        case.feature('portfolio_from_its_json_form')
    r = flow.run_portfolio(spec, do_extract=False, via_json=via_json)
    if not r.ok:
        case.reject(flow.describe_error(r)); return
    if r.res == 'inaccurate':
        case.inconc('EAO result inaccurate'); return
    ref = RefLP(gen.strip_private(spec))
    if ref.unsupported:
        case.inconc('reference does not model ' + ref.unsupported); return
    tg = r.built.timegrid
    if ref.T != tg.T:
        case.check('ref.grid_same_length', False, T_eao=tg.T, T_ref=ref.T); return
    sol = ref.solve()
    if sol['status'] not in ('optimal', 'infeasible'):
        case.inconc('reference solver: ' + sol['status']); return
    eao_ok = r.solved
    case.check('ref.feasibility_verdicts_agree', eao_ok == (sol['status'] == 'optimal'), eao=('solved' if eao_ok else str(r.res)), reference=sol['status'],
               ref_value=sol['value'])
    if not (eao_ok and sol['status'] == 'optimal'):
        case.feature('both_infeasible' if not eao_ok and sol['status'] != 'optimal' else 'verdict_mismatch')
        return
    v = float(r.res.value); vr = float(sol['value'])
    case.check('ref.value_equal', abs(v - vr) <= solve.TOL_VAL * (1 + abs(vr)), eao=v, reference=vr)
    ev = [e for e in r.rec.of('optimize') if e.snap is not None][-1]
    worst, where, obj, missing = ref.evaluate(eao_point(ref.spec, ev.snap, r.res.x))
    case.check('ref.eao_point_covers_reference_variables', not missing, missing=missing[:5])
    case.check('ref.eao_point_feasible_in_reference', worst <= solve.TOL_FEAS, worst=worst, where=where)
    case.check('ref.eao_point_same_objective', abs(obj - v) <= solve.TOL_VAL * (1 + abs(v)), reference_objective_at_eao_point=obj, eao=v)
    # non-trivial: at least two asset classes with flow
    used = set()
    x = np.asarray(r.res.x)
    m = ev.snap.mapping
    types = {a['name']: a['type'] for a in spec['assets']}
    for idx, asset in zip(m.index, m['asset']):
        if abs(x[int(idx)]) > 1e-6:
            used.add(types.get(asset))
    case.nontrivial = len(used) >= 2
