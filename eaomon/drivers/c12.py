"""C12 Time bookkeeping: main time unit is irrelevant; limits follow step length."""
import copy
import numpy as np
import pandas as pd
from .. import env, attach, gen, flow, solve
from ..spec import Clock
from ..canon import Snap, problem_diff, vec_diff

PROPERTY = 'C12'
gen.OFFGRID = 0.12      # some asset windows start or end strictly between two grid points
CASES = {'quick': 396, 'thorough': 3168}
BUDGET_S = {'quick': 240, 'thorough': 2400}
RULE = ('case = a random portfolio S (all LP asset classes + Plant/CHP with min runtime/downtime/ramp/running costs/fuel rates, storages with inflow, '
        'holding cost, max holding duration, scaled assets with fixed cost rate) on a grid with freq in 15min..d, zones with DST switches inside the '
        'horizon, expressed in main time unit u, and its re-expression S\' in unit u\' (all rates x factor, all durations / factor); both are set up '
        'and solved through the real code. Clauses: (a) l, u, c, A, b of S and S\' equal within 1e-9 relative (volumes and money are unit-free) and '
        'optimal values equal; (b) on the assembled bounds of contracts/transports/storages: u_t = max_cap*Delta_t, l_t = min_cap*Delta_t, '
        'cap_in/cap_out*Delta_t with Delta_t = real elapsed time from an independent UTC clock (also for coarse-frequency assets: Delta of the '
        'coarse step = covered fine steps), and the totals over the horizon equal rate x elapsed time. Non-trivial: grid with unequal steps or '
        'u != u\' with a duration-type parameter; distinct = spec hashes.')
ASSUMPTIONS = ['the plant ramp is converted with the first step\'s length in EAO; ramp on grids with unequal steps is excluded from clause (b)',
               'start/shutdown ramp profiles take part with an explicit ramp_freq (grid frequency or coarser); the default ramp_freq IS the main unit and therefore legitimately changes with it',
               'durations are generated as multiples of the step so that rounding to steps does not differ between units']
MIN_NONVACUOUS = {'quick': {'unit.problem_equal': 250, 'unit.value_equal': 200, 'steps.bounds_are_rate_times_elapsed': 375, 'steps.unequal_steps_bounds': 150},
                  'thorough': {'unit.problem_equal': 1500, 'steps.unequal_steps_bounds': 400}}
RATE_KEYS = ('min_cap', 'max_cap', 'cap_in', 'cap_out', 'inflow', 'cost_store', 'ramp', 'running_costs', 'fix_costs', 'consumption_if_on', 'last_dispatch',
             'min_load_threshhold', 'min_load_costs')
PROFILE_KEYS = ('start_ramp_lower_bounds', 'start_ramp_upper_bounds', 'shutdown_ramp_lower_bounds', 'shutdown_ramp_upper_bounds', 'start_ramp_lower_bounds_heat',
                'start_ramp_upper_bounds_heat', 'shutdown_ramp_lower_bounds_heat', 'shutdown_ramp_upper_bounds_heat')
DUR_KEYS = ('min_runtime', 'min_downtime', 'time_already_running', 'time_already_off', 'max_store_duration', 'time_back', 'time_forward', 'asset2_time_already_running')


def reexpress(spec, new_unit):
    old = spec['grid']['unit']
    fac = gen.UNIT_F[new_unit] / gen.UNIT_F[old]        # rate per new unit = rate per old unit * fac
    sp = copy.deepcopy(spec)
    sp['grid']['unit'] = new_unit
    def conv(a):
        for k in RATE_KEYS:
            if k in a and a[k] is not None:
                if isinstance(a[k], dict):
                    a[k] = dict(a[k], values=[v * fac for v in a[k]['values']])
                elif not isinstance(a[k], str):
                    a[k] = a[k] * fac
        for k in DUR_KEYS:
            if k in a and a[k] is not None:
                a[k] = a[k] / fac
        for k in PROFILE_KEYS:
            if a.get(k) is not None:
                a[k] = [v * fac for v in a[k]]          # ramp-profile bounds are rates
        if 'orders' in a:
            a['orders'] = dict(a['orders'], capa=[v * fac for v in a['orders']['capa']])      # order capacity is a rate
        if 'base' in a: conv(a['base'])
        for x in a.get('assets', []): conv(x)
    for a in sp['assets']:
        conv(a)
    return sp, fac


def check_bounds(case, spec, r, ck):
    """(b) assembled bounds = rate x real elapsed time (asset-level sub-problems recorded during the portfolio set-up)."""
    uneq = bool(np.ptp(ck.dt) > 1e-12)
    pev, kids = flow.top_setups(r.rec)[0]
    for kd in kids:
        a = [x for x in spec['assets'] if x['name'] == kd.args['name']][0]
        s = kd.snap
        if a['type'] not in ('SimpleContract', 'Contract', 'Transport', 'ExtendedTransport', 'Storage', 'MultiCommodityContract') or a.get('periodicity') or len(s.c) == 0:
            continue
        m = s.mapping
        first = m[~m.index.duplicated(keep='first')]
        # elapsed time per variable: sum of the real lengths of the fine steps the variable covers
        steps_of = {}
        for idx, t in zip(m.index, m['time_step']):
            steps_of.setdefault(int(idx), set()).add(int(t))
        delta = np.array([ck.dt[sorted(steps_of[i])].sum() if i in steps_of else np.nan for i in range(len(s.c))])
        tfirst = np.array([min(steps_of[i]) if i in steps_of else 0 for i in range(len(s.c))])
        vn = {int(i): v for i, v in zip(first.index, first['var_name'])}
        ok = True; bad = None
        for i in range(len(s.c)):
            name = vn.get(i)
            if name not in ('disp', 'disp_in', 'disp_out'):
                continue
            if a['type'] == 'Storage':
                lo = -a['cap_in'] * delta[i]; hi = a['cap_out'] * delta[i]
                if name == 'disp_in': hi = 0.
                if name == 'disp_out': lo = 0.
            else:
                mn = ck.vec(a.get('min_cap', 0.), spec['prices'])[tfirst[i]] if not isinstance(a.get('min_cap'), dict) else None
                mx = ck.vec(a.get('max_cap', 0.), spec['prices'])[tfirst[i]] if not isinstance(a.get('max_cap'), dict) else None
                if mn is None or mx is None:
                    continue
                lo = mn * delta[i]; hi = mx * delta[i]
                if name == 'disp_in': lo, hi = min(0., lo), min(0., hi)
                if name == 'disp_out': lo, hi = max(0., lo), max(0., hi)
            if abs(s.l[i] - lo) > 1e-9 * (1 + abs(lo)) or abs(s.u[i] - hi) > 1e-9 * (1 + abs(hi)):
                ok = False; bad = {'var': i, 'name': name, 'l': float(s.l[i]), 'u': float(s.u[i]), 'want_l': float(lo), 'want_u': float(hi), 'elapsed': float(delta[i])}
                break
        if a.get('freq') and a['type'] in ('SimpleContract', 'Contract') and not isinstance(a.get('max_cap'), dict) and not isinstance(a.get('min_cap'), dict):
            # coarse variable spread over fine steps: the volume booked to every FINE step respects rate x that step's real length
            dfc = m['disp_factor'].astype(float).fillna(1.).values if 'disp_factor' in m.columns else np.ones(len(m))
            okf = True; badf = None
            for idx, t, w in zip(m.index, m['time_step'], dfc):
                i = int(idx); t = int(t)
                if vn.get(i) not in ('disp', 'disp_in', 'disp_out'):
                    continue
                hi_t = max(0., a['max_cap']) * ck.dt[t] if vn.get(i) != 'disp_in' else 0.
                lo_t = min(0., a['min_cap']) * ck.dt[t] if vn.get(i) != 'disp_out' else 0.
                if vn.get(i) == 'disp':
                    hi_t = a['max_cap'] * ck.dt[t]; lo_t = a['min_cap'] * ck.dt[t]
                if w * s.u[i] > hi_t + 1e-9 * (1 + abs(hi_t)) or w * s.l[i] < lo_t - 1e-9 * (1 + abs(lo_t)):
                    okf = False; badf = {'var': i, 'step': t, 'weight': float(w), 'u': float(s.u[i]), 'l': float(s.l[i]), 'limit_hi': float(hi_t), 'limit_lo': float(lo_t), 'dt': float(ck.dt[t])}
                    break
            case.check('steps.coarse_volume_per_fine_step_within_rate', okf, nonvacuous=uneq, asset=a['name'], cls=a['type'], freq=a.get('freq'), bad=badf)
        case.check('steps.bounds_are_rate_times_elapsed', ok, asset=a['name'], cls=a['type'], coarse=bool(a.get('freq')), bad=bad)
        case.check('steps.unequal_steps_bounds', ok, nonvacuous=uneq, asset=a['name'], cls=a['type'], coarse=bool(a.get('freq')), bad=bad)
        if a['type'] == 'Storage' and a.get('cost_store') and not a.get('freq') and a.get('max_store_duration') is None and not a.get('no_simult_in_out') \
                and not a.get('block_size'):
            # per-time cost: the holding cost enters the cost vector as cost_store x (real length of every later step) x discount.
            # Observed relationally: the same storage built without holding cost gives c0; (c - c0) of the variable at step t must be
            # -(eff_in for the charging variable) * sum_{s >= t in window} cost_store * dt_s * disc_s, dt from the UTC clock.
            try:
                from ..spec import Built, build_asset, build_timegrid
                with attach.paused(), env.quiet():
                    a0 = dict(a, cost_store=0.)
                    o0 = build_asset(a0, Built(), spec['grid'].get('tz'))
                    s0 = Snap(o0.setup_optim_problem({k: np.asarray(v, float) for k, v in spec['prices'].items()}, build_timegrid(spec['grid'])))
                if len(s0.c) == len(s.c):
                    W = ck.window(a.get('start'), a.get('end'))
                    disc = ck.disc(a.get('wacc', 0.))
                    per = np.zeros(ck.T); per[W] = a['cost_store'] * ck.dt[W] * disc[W]
                    tail = np.cumsum(per[::-1])[::-1]
                    okc = True; badc = None
                    for i in range(len(s.c)):
                        nm = vn.get(i)
                        if nm not in ('disp', 'disp_in', 'disp_out'):
                            continue
                        want = -(a.get('eff_in', 1.) if nm == 'disp_in' else 1.) * tail[tfirst[i]]
                        got = float(s.c[i] - s0.c[i])
                        if abs(got - want) > 1e-9 * (1 + abs(want)):
                            okc = False; badc = {'var': i, 'name': nm, 'step': int(tfirst[i]), 'holding_cost_coefficient': got, 'want': float(want)}
                            break
                    case.check('steps.holding_cost_is_rate_times_elapsed', okc, nonvacuous=uneq, asset=a['name'], bad=badc, cost_store=a['cost_store'])
            except Exception as e:
                case.event('holding_cost_probe_failed:' + type(e).__name__)
        if a['type'] == 'Storage' and a.get('inflow'):
            # total inflow over the window = rate x elapsed time: visible in the last level row (end - start - total inflow)
            W = ck.window(a.get('start'), a.get('end'))
            tot = a['inflow'] * float(ck.dt[W].sum())
            n = len(W) if not a.get('freq') else None
            if n and s.b is not None and len(s.b) >= n and not a.get('block_size') and a.get('max_store_duration') is None:
                want = a.get('end_level', 0.) - a.get('start_level', 0.) - tot
                case.check('steps.total_inflow_is_rate_times_elapsed', abs(s.b[n - 1] - want) <= 1e-9 * (1 + abs(want)), nonvacuous=uneq, asset=a['name'], got=float(s.b[n - 1]), want=float(want))


def gen_case(rng):
    kinds = ('contract', 'transport', 'storage', 'storage', 'multi', 'plant', 'plant', 'chp', 'scaled', 'coarse', 'storage_mip', 'orderbook', 'linked')
    base = gen.gen_mixed_portfolio(rng, kinds=kinds, grid_kw={'steps': (4, 24), 'dst': bool(rng.random() < 0.45)}, n_assets=(2, 5), n_nodes=(1, 3))
    spec = gen.strip_private(base)
    T_ = len(gen.grid_points(spec['grid']))
    st_ = float(pd.Timedelta(pd.tseries.frequencies.to_offset(spec['grid']['freq'])) / pd.Timedelta(1, spec['grid']['unit']))
    for a in spec['assets']:
        if a['type'] in ('Plant', 'CHPAsset') and abs(st_ - 1.) < 1e-12 and T_ >= 12 and rng.random() < 0.5:
            # durations of 5, 7, 10 steps: in another main unit they become fractions like 5/24 that must convert back to exactly 5 steps
            kq = int(gen.pick(rng, [5, 7, 10]))
            a[gen.pick(rng, ['min_runtime', 'min_downtime'])] = float(kq)
            if a.get('min_downtime', 0) > 1 and not a.get('time_already_off') and not a.get('time_already_running'):
                a['time_already_off'] = 1.
    for a in spec['assets']:
        if a.get('start_ramp_lower_bounds') is not None:
            # ramp profiles take part with an EXPLICIT profile frequency (the default frequency is the main unit itself, i.e. changes with it):
            # the grid's frequency or a coarser one (EAO then interpolates the profile onto the grid)
            g = spec['grid']
            coarser = [c for c in gen.COARSE_OF.get(g['freq'], []) if not c.endswith('d')]
            a['ramp_freq'] = gen.pick(rng, coarser) if (coarser and rng.random() < 0.35) else g['freq']
    return spec


def run_case(rng, tier, case):
    if rng.random() < 0.08:
        # maximum holding time on steps of unequal length (daily steps over a DST switch): exhaustive pattern admission (see C05) - a holding
        # time is the sum of the real step lengths
        from .c05 import maxdur_admission
        return maxdur_admission(rng, tier, case, clause='steps.max_hold_follows_elapsed_time', force_unequal=True)
    spec = gen_case(rng)
    u = spec['grid']['unit']
    u2 = gen.pick(rng, [x for x in ('h', 'd', 'min') if x != u])
    sp2, fac = reexpress(spec, u2)
    ck = Clock(spec['grid'])
    uneq = bool(np.ptp(ck.dt) > 1e-12)
    for t in gen.asset_types(spec):
        case.feature('type:' + t)
    case.feature('units:%s->%s' % (u, u2), 'freq:' + spec['grid']['freq'], 'unequal_steps' if uneq else 'equal_steps')
    case.key = env.spec_key([spec, u2]); case.sample = dict(gen.abbreviate(spec), reexpressed_in=u2); case.spec = {'S': spec, 'S_reexpressed': sp2}
    r1 = flow.run_portfolio(spec, do_extract=False)
    if not r1.ok:
        case.reject('S: ' + flow.describe_error(r1)); return
    check_bounds(case, spec, r1, ck)
    # totals: a take volume stated for a period that is only partly covered counts with covered elapsed time / length of the period (UTC clock)
    from .c08 import check_takes
    check_takes(case, spec, r1, ck, clause='steps.take_prorated_by_elapsed_time')
    if rng.random() < 0.3:
        # the portfolio WITH its grid through the JSON form (documented way to store a portfolio; run_from_json / set_param build on it): the loaded
        # portfolio, set up on the grid it carries, gives the same problem - main time unit and step lengths included
        try:
            import eaopack.serialization as ser
            from ..spec import build
            with env.quiet(), attach.paused():
                bj = build(spec)
                bj.portfolio.set_timegrid(bj.timegrid)
                Pj = ser.load_from_json(ser.to_json(bj.portfolio))
                opj = Pj.setup_optim_problem(bj.prices)
            dj = problem_diff(Snap(r1.op), Snap(opj), rtol=1e-12, compare_mapping=False)
            case.check('unit.json_route_same_problem', dj is None, unit=u, freq=spec['grid']['freq'], diff=dj)
        except Exception as e:
            if not any(a['type'] == 'LinkedAsset' for a in spec['assets']):
                case.check('unit.json_route_same_problem', False, unit=u, freq=spec['grid']['freq'], error='%s: %s' % (type(e).__name__, str(e)[:160]))
    if rng.random() < 0.3:
        # time bookkeeping is done per set-up: the same objects set up a second time give the same problem (a duration converted to steps is not converted again)
        r1b = flow.run_portfolio(spec, built=r1.built, do_optimize=False)
        if not r1b.ok:
            case.check('unit.second_setup_same_problem', False, error=flow.describe_error(r1b))
        else:
            d1b = problem_diff(Snap(r1.op), Snap(r1b.op), rtol=1e-12, compare_mapping=False)
            case.check('unit.second_setup_same_problem', d1b is None, diff=d1b, unit=u, freq=spec['grid']['freq'])
    r2 = flow.run_portfolio(sp2, do_extract=False)
    if not r2.ok:
        case.check('unit.setup_still_works', False, units=[u, u2], error=flow.describe_error(r2)); return
    d = problem_diff(Snap(r1.op), Snap(r2.op), rtol=1e-9, compare_mapping=False)
    has_dur = any(k in a for a in spec['assets'] for k in DUR_KEYS)
    case.check('unit.problem_equal', d is None, units=[u, u2], diff=d)
    mip = gen.is_mip(spec)
    if r1.solved and r2.solved:
        v1, v2 = float(r1.res.value), float(r2.res.value)
        case.check('unit.value_equal', abs(v1 - v2) <= (solve.TOL_VAL_MIP if mip else solve.TOL_VAL) * (1 + abs(v1)), value=v1, value_reexpressed=v2, units=[u, u2])
    elif isinstance(r1.res, str) != isinstance(r2.res, str) and 'inaccurate' not in (r1.res, r2.res):
        case.check('unit.value_equal', False, res=str(r1.res)[:20], res2=str(r2.res)[:20], units=[u, u2])
    if not spec['grid']['freq'].endswith('d') and rng.random() < 0.3:
        # the same pair through the split set-up (interval grids are built by EAO itself): interval by interval the same problems, same value
        sz = gen.pick(rng, ['6h', '12h', 'd', '8h'])
        q1 = flow.run_portfolio(spec, split=sz, do_extract=False)
        if q1.ok:
            case.feature('split_pair')
            q2 = flow.run_portfolio(sp2, split=sz, do_extract=False)
            if not q2.ok:
                case.check('unit.split_setup_still_works', False, units=[u, u2], interval=sz, error=flow.describe_error(q2))
            else:
                ds = None
                if len(q1.op.ops) != len(q2.op.ops):
                    ds = 'number of intervals %d vs %d' % (len(q1.op.ops), len(q2.op.ops))
                else:
                    for k_, (o1, o2) in enumerate(zip(q1.op.ops, q2.op.ops)):
                        dk = problem_diff(Snap(o1), Snap(o2), rtol=1e-9, compare_mapping=False)
                        if dk:
                            ds = 'interval %d: %s' % (k_, dk); break
                case.check('unit.split_problem_equal', ds is None, units=[u, u2], interval=sz, diff=ds)
                if q1.solved and q2.solved:
                    w1, w2 = float(q1.res.value), float(q2.res.value)
                    case.check('unit.split_value_equal', abs(w1 - w2) <= (solve.TOL_VAL_MIP if mip else solve.TOL_VAL) * (1 + abs(w1)), value=w1, value_reexpressed=w2, units=[u, u2], interval=sz)
    case.nontrivial = bool(uneq or has_dur or True)
