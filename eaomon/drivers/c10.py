"""C10 Building a problem is a pure function of parameters, prices and grid."""
import copy
import numpy as np
import pandas as pd
from .. import env, attach, gen, flow, solve
from ..spec import build, build_timegrid
from ..canon import Snap, problem_diff

PROPERTY = 'C10'
CASES = {'quick': 396, 'thorough': 3168}
BUDGET_S = {'quick': 240, 'thorough': 2400}
RULE = ('case = one spec (portfolio with interval dictionaries in naive dates, implicit ends, DatetimeIndex/array forms, dictionaries shared between '
        'two assets, takes, CHP/Plant, structured/scaled wrappers, coarse and periodic assets) built ONCE, then a history of 2-5 (thorough: up to 8) '
        'operations on the same asset / portfolio / grid objects - set-up with other grids (zone, freq, horizon, main unit) and prices, costs_only, '
        'set_timegrid + set-up with timegrid=None, optimise + extract, to_json, split set-up, asset reused in a second portfolio or inside a '
        'StructuredAsset with a narrower window, stand-alone asset set-up, a failing call (missing price key) - followed by the probe set-up; the '
        'oracle compares the probe problem with the problem from objects freshly built from the same spec (exact, incl. mapping). An exception in '
        'the probe where the fresh call succeeds is a violation. Non-trivial: >=2 history operations executed; distinct = (spec, history) hashes.')
ASSUMPTIONS = ['mutation of user dictionaries is logged as advisory unless it changes or breaks a later call (as the property states)',
               'history operations may themselves fail on domain errors (e.g. capacity dictionary not covering the other grid): that is part of the history']
MIN_NONVACUOUS = {'quick': {'purity.same_problem_as_fresh': 250, 'purity.probe_does_not_raise': 250},
                  'thorough': {'purity.same_problem_as_fresh': 2000}}
OPS = ['setup_other', 'setup_other', 'costs_only', 'set_timegrid_none', 'optimize_extract', 'to_json', 'split', 'second_portfolio', 'structured_reuse',
       'asset_alone', 'failing_call', 'same_grid_other_prices', 'setup_other_tz', 'injected_failure', 'injected_failure', 'change_parameter', 'change_parameter',
       'slp_and_cost_samples', 'fix_window_call', 'assets_alone_same_grid_reversed', 'price_frame']
_FP = {}


def failpoint():
    if 'fp' not in _FP:
        from ..failpoint import Failpoint
        _FP['fp'] = Failpoint(env.REPO)
    return _FP['fp']


def variant_forms(rng, spec):
    """vary the container / date forms of interval dictionaries; share one dictionary between two assets."""
    for a in spec['assets']:
        if rng.random() < 0.5:
            a['_date_form'] = gen.pick(rng, ['datetime', 'timestamp', 'date'] + (['aware_utc', 'aware_utc', 'aware_other'] if spec['grid'].get('tz') else []))
        if a['type'] in ('Plant', 'CHPAsset') and rng.random() < 0.4:
            # a duration that is not a whole number of grid steps (rounded up at every set-up)
            for kq in ('min_runtime', 'min_downtime'):
                if a.get(kq) and rng.random() < 0.7:
                    st_ = float(pd.Timedelta(pd.tseries.frequencies.to_offset(spec['grid']['freq'])) / pd.Timedelta(1, spec['grid']['unit']))
                    a[kq] = gen.r2(a[kq] + gen.pick(rng, [0.5, 0.25]) * st_) if st_ >= 0.02 else a[kq]
        if a['type'] in ('Plant', 'CHPAsset') and rng.random() < 0.6:
            a['_seq_form'] = 'array'          # ramp profiles as numpy arrays (objects the user keeps and may reuse)
        if (a.get('min_take') or a.get('max_take')) and '_container' not in a and rng.random() < 0.4:
            a['_container'] = 'array'         # take volumes (and dates) handed over as numpy arrays the user keeps
        if rng.random() < 0.3 and '_container' not in a:
            a['_container'] = gen.pick(rng, ['dtindex', 'array', 'list', 'np_D', 'np_h', 'np_m', 'np_ns'])
    return spec


def add_dicts(rng, spec):
    """interval dictionaries with implicit ends / single start (the forms values_to_grid normalises)."""
    g = spec['grid']; f = gen.UNIT_F[g['unit']]
    pts = gen.grid_points(g)
    far0 = str((pd.Timestamp(g['start']) - pd.Timedelta(days=400)).normalize())
    for a in spec['assets']:
        if a['type'] in ('SimpleContract', 'Contract') and not isinstance(a.get('max_cap'), dict) and not a.get('freq') and not a.get('periodicity') and rng.random() < 0.5:
            hi = a['max_cap']; lo = a['min_cap']
            kind = gen.pick(rng, ['single_noend', 'implicit', 'explicit_far'])
            mid = gen.naive_str(pts[len(pts) // 2])
            if not gen.local_ok(mid, g.get('tz')):
                continue
            if kind == 'single_noend':
                a['max_cap'] = {'start': [far0], 'values': [hi]}
            elif kind == 'implicit':
                a['max_cap'] = {'start': [far0, mid, str(pd.Timestamp(mid) + pd.Timedelta(days=300))], 'values': [hi, max(lo, hi * 0.5), hi]}
            else:
                a['max_cap'] = {'start': [far0, mid], 'end': [mid, str(pd.Timestamp(g['end']) + pd.Timedelta(days=400))], 'values': [hi, max(lo, hi * 0.5)]}
            if rng.random() < 0.3:
                a['extra_costs'] = {'start': [far0], 'values': [0.4]}
            elif rng.random() < 0.2 and a.get('price'):
                # costs taken from the price data by name, no market price of its own (fee series)
                a['extra_costs'] = a['price']; a['price'] = None
            elif rng.random() < 0.25:
                # an equidistant list of period starts (yearly steps around the horizon), implicit ends - typically handed over as a DatetimeIndex
                y0 = (pd.Timestamp(g['start']) - pd.Timedelta(days=730)).normalize()
                a['extra_costs'] = {'start': [str(y0 + pd.Timedelta(days=365 * q)) for q in range(5)], 'values': [0.1, 0.2, 0.3, 0.4, 0.5]}
                a['_container'] = 'dtindex'
    return spec


def other_grid(rng, spec, same_span=False):
    g0 = spec['grid']
    if same_span:
        g = dict(g0)
        g['tz'] = gen.pick(rng, [t for t in gen.TZS if t != g0['tz']])
        if not (gen.local_ok(g['start'], g['tz']) and gen.local_ok(g['end'], g['tz'])):
            return None
        return g
    for _ in range(10):
        g = gen.gen_grid(rng, steps=(3, 16), anchors=[str(pd.Timestamp(g0['start']).normalize())[:10]] if rng.random() < 0.7 else None)
        if g != g0:
            return g
    return None


def run_case(rng, tier, case):
    base = gen.gen_mixed_portfolio(rng, kinds=('contract', 'contract', 'contract', 'transport', 'storage', 'multi', 'plant', 'chp', 'structured', 'scaled', 'coarse', 'periodic', 'orderbook', 'coarse_pair', 'chp_minload', 'storage_mip'),
                                   grid_kw={'steps': (4, 18)}, n_assets=(2, 5), n_nodes=(1, 3))
    spec = add_dicts(rng, base)
    spec = variant_forms(rng, spec)
    keys = sorted(spec['prices'])
    nops = int(rng.integers(2, 6 if tier == 'quick' else 9))
    ops = [gen.pick(rng, OPS) for _ in range(nops)]
    hist = []
    case.spec = {'spec': spec, 'ops': ops}
    for t in gen.asset_types(spec):
        case.feature('type:' + t)
    try:
        with env.quiet():
            b = build(spec)
    except Exception as e:
        case.reject('build: %s %s' % (type(e).__name__, str(e)[:100])); return
    P = b.portfolio
    import eaopack.serialization as ser
    import eaopack.io as eio
    from eaopack.portfolio import Portfolio, StructuredAsset
    executed = 0
    fw_user = None; fw_date = None
    with env.quiet():
        for op in ops:
            g2 = other_grid(rng, spec, same_span=(op == 'setup_other_tz'))
            if g2 is None:
                hist.append([op, 'skipped']); continue
            T2 = len(gen.grid_points(g2))
            pr2 = {k: np.asarray(v) for k, v in gen.gen_prices(rng, T2, keys).items()}
            outcome = 'ok'
            try:
                tg2 = build_timegrid(g2)
                if op in ('setup_other', 'setup_other_tz'):
                    P.setup_optim_problem(pr2, tg2)
                elif op == 'costs_only':
                    P.setup_optim_problem(b.prices, b.timegrid, costs_only=True)
                elif op == 'same_grid_other_prices':
                    prx = {k: np.asarray(v) for k, v in gen.gen_prices(rng, b.timegrid.T, keys).items()}
                    P.setup_optim_problem(prx, b.timegrid)
                elif op == 'set_timegrid_none':
                    P.set_timegrid(tg2)
                    for a in P.assets:
                        a.set_timegrid(tg2)
                    P.setup_optim_problem(pr2)
                elif op == 'optimize_extract':
                    o = P.setup_optim_problem(pr2, tg2); res = o.optimize(); eio.extract_output(P, o, res, pr2)
                elif op == 'to_json':
                    ser.to_json(P)
                elif op == 'split':
                    if not g2['freq'].endswith('d'):
                        P.setup_split_optim_problem(pr2, tg2, interval_size=gen.pick(rng, ['d', '6h']))
                elif op == 'second_portfolio':
                    sub = [a for a in P.assets if rng.random() < 0.7] or list(P.assets)
                    Portfolio(sub).setup_optim_problem(pr2, tg2)
                elif op == 'structured_reuse':
                    sub = [a for a in P.assets if type(a).__name__ in ('SimpleContract', 'Contract', 'Storage', 'Transport')][:3]
                    if sub:
                        s_, e_, _k = gen.gen_window(rng, g2, kinds=['inside', 'inside', 'straddle_start', 'straddle_end', 'start_only', 'end_only', 'start_only', 'end_only'])
                        sa = StructuredAsset(name='wrap', portfolio=Portfolio(sub), nodes=[sub[0].nodes[0]],
                                             start=None if s_ is None else pd.Timestamp(s_).to_pydatetime(), end=None if e_ is None else pd.Timestamp(e_).to_pydatetime())
                        sa.setup_optim_problem(pr2, tg2)
                elif op == 'price_frame':
                    # price data as a positional DataFrame (integer index) handed to the routes that cast data onto the grid themselves; the SAME
                    # frame is then used for a grid of the same length elsewhere in time: it must give what an untouched copy gives
                    df_user = pd.DataFrame({k: np.asarray(v, float) for k, v in b.prices.items()})
                    pristine = df_user.copy(deep=True)
                    route = gen.pick(rng, ['split', 'io.optimize', 'prices_to_grid'])
                    tg0 = build_timegrid(spec['grid'])
                    try:
                        if route == 'split' and not spec['grid']['freq'].endswith('d'):
                            P.setup_split_optim_problem(df_user, tg0, interval_size=gen.pick(rng, ['d', '6h']))
                        elif route == 'io.optimize':
                            eio.optimize(P, tg0, df_user)
                        else:
                            tg0.prices_to_grid(df_user)
                    except Exception as e:
                        outcome = 'raised %s' % type(e).__name__
                    gB = dict(spec['grid'])
                    gB['start'] = str(pd.Timestamp(spec['grid']['start']) + pd.Timedelta(days=371)); gB['end'] = str(pd.Timestamp(spec['grid']['end']) + pd.Timedelta(days=371))
                    if gen.local_ok(gB['start'], gB.get('tz')) and gen.local_ok(gB['end'], gB.get('tz')):
                        tgB = build_timegrid(gB)
                        if tgB.T == len(pristine):
                            got = tgB.prices_to_grid(df_user); want = tgB.prices_to_grid(pristine)
                            same = got.shape == want.shape and np.allclose(got.values.astype(float), want.values.astype(float), rtol=0, atol=0, equal_nan=True)
                            case.check('purity.price_data_gives_same_result_later', bool(same), route=route, first=got.iloc[:, 0].values[:4].tolist(), untouched_copy=want.iloc[:, 0].values[:4].tolist())
                elif op == 'assets_alone_same_grid_reversed':
                    # every asset set up on its own on the portfolio's grid object, last asset first (whatever the grid object remembers now
                    # comes from another asset than in a fresh portfolio set-up)
                    for a in list(P.assets)[::-1]:
                        a.setup_optim_problem(b.prices, b.timegrid)
                elif op == 'asset_alone':
                    for a in P.assets[:3]:
                        a.setup_optim_problem(pr2, tg2)
                elif op == 'injected_failure':
                    # a set-up (other grid, or the structured wrapper) aborted by an exception raised at a random executed line of eaopack
                    fp = failpoint()
                    if fp.available:
                        which = gen.pick(rng, ['portfolio', 'portfolio', 'structured', 'split'])
                        def target():
                            if which == 'structured':
                                sub = [a for a in P.assets if type(a).__name__ in ('SimpleContract', 'Contract', 'Storage', 'Transport')][:3]
                                if sub:
                                    s_, e_, _k = gen.gen_window(rng, g2, kinds=['inside', 'straddle_start', 'straddle_end'])
                                    StructuredAsset(name='wrap', portfolio=Portfolio(sub), nodes=[sub[0].nodes[0]], start=None if s_ is None else pd.Timestamp(s_).to_pydatetime(),
                                                    end=None if e_ is None else pd.Timestamp(e_).to_pydatetime()).setup_optim_problem(pr2, tg2)
                            elif which == 'split' and not g2['freq'].endswith('d'):
                                P.setup_split_optim_problem(pr2, tg2, interval_size='6h')
                            else:
                                P.setup_optim_problem(pr2, tg2)
                        # number of lines the call executes, measured on throw-away objects built from the same spec
                        import copy as _c
                        b_tmp = build(spec)
                        P_keep = P
                        P = b_tmp.portfolio
                        try:
                            n_lines = fp.count(target)
                        except Exception:
                            n_lines = 0
                        P = P_keep
                        if n_lines > 3:
                            where = fp.inject(target, int(rng.integers(1, n_lines)))
                            outcome = 'injected fault at ' + str(where)
                            case.event('injected_faults')
                elif op == 'slp_and_cost_samples':
                    # stochastic program + cost samples on the portfolio's own grid object (make_slp re-restricts the shared grid and edits the problem in place)
                    import eaopack.stoch_lin_prog as SLP
                    o = P.setup_optim_problem(b.prices, b.timegrid)
                    k_ = int(rng.integers(1, max(2, b.timegrid.T)))
                    samp = [{k: np.asarray(v) for k, v in gen.gen_prices(rng, b.timegrid.T, keys).items()} for _ in range(2)]
                    cs_ = P.create_cost_samples(samp, b.timegrid)
                    # each cost sample is the cost vector of the problem for THAT price set, whatever was sampled before it
                    for q_, (sm_, cv_) in enumerate(zip(samp, cs_)):
                        direct = np.asarray(P.setup_optim_problem(sm_, b.timegrid, costs_only=True), float)
                        case.check('purity.cost_sample_equals_direct_cost_vector', direct.shape == np.asarray(cv_).shape and bool(np.array_equal(direct, np.asarray(cv_, float))), sample=q_,
                                   worst=float(np.max(np.abs(direct - np.asarray(cv_, float)))) if direct.shape == np.asarray(cv_).shape and len(direct) else None)
                    if rng.random() < 0.5:
                        P.setup_optim_problem(pr2, tg2)          # (the portfolio is used on another grid before the stochastic program is built for the first one)
                    # the same stochastic program from freshly built objects
                    slp_f = None
                    try:
                        b5 = build(spec)
                        slp_f = Snap(SLP.make_slp(b5.portfolio.setup_optim_problem(b5.prices, b5.timegrid), b5.portfolio, b5.timegrid, b5.timegrid.timepoints[k_], samp))
                    except Exception:
                        slp_f = None
                    try:
                        slp_u = Snap(SLP.make_slp(o, P, b.timegrid, b.timegrid.timepoints[k_], samp))
                        if slp_f is not None:
                            d5 = problem_diff(slp_u, slp_f, rtol=1e-12, compare_mapping=False)
                            case.check('purity.slp_same_as_from_fresh_objects', d5 is None, diff=d5, boundary_step=k_)
                    except Exception as e5:
                        if slp_f is not None:
                            case.check('purity.slp_same_as_from_fresh_objects', False, boundary_step=k_, error='%s: %s' % (type(e5).__name__, str(e5)[:160]))
                        raise
                elif op == 'fix_window_call':
                    # a user-supplied fix_time_window dictionary (window given as a date, previous solution longer than this problem - the documented
                    # SLP case) is used for a set-up on another grid; the SAME dictionary is used again in the final probe
                    if fw_user is None:
                        pts_ = gen.grid_points(spec['grid'])
                        fw_date = pts_[int(rng.integers(0, len(pts_)))]
                        fw_user = {'I': fw_date if rng.random() < 0.5 else fw_date.to_pydatetime(), 'x': np.zeros(200000)}
                    P.setup_optim_problem(pr2, tg2, fix_time_window=fw_user)
                elif op == 'change_parameter':
                    # the user changes a parameter on the asset object between two set-ups (the spec is changed alike, so that the freshly built
                    # objects of the final comparison carry the new value): a later set-up must reflect the new value, not anything remembered
                    cands = [(a, x) for a, x in zip(P.assets, spec['assets']) if type(a).__name__ in ('Transport', 'ExtendedTransport', 'MultiCommodityContract', 'Storage', 'SimpleContract', 'Contract')]
                    if cands:
                        a, x = cands[int(rng.integers(len(cands)))]
                        tn = type(a).__name__
                        P.setup_optim_problem(b.prices, b.timegrid)       # a set-up with the old value first
                        if tn in ('Transport', 'ExtendedTransport'):
                            a.efficiency = x['efficiency'] = gen.pick(rng, [v for v in (1., 0.9, 0.8, 0.5) if v != x.get('efficiency')])
                        elif tn == 'MultiCommodityContract':
                            fc = [1.] + [gen.pick(rng, [0.3, 1.2, -0.7, 2.5]) for _ in a.nodes[1:]]
                            a.factors_commodities = list(fc); x['factors_commodities'] = list(fc)
                        elif tn == 'Storage':
                            a.eff_in = x['eff_in'] = gen.pick(rng, [v for v in (0.95, 0.85, 0.7) if v != x.get('eff_in')])
                        elif isinstance(x.get('max_cap'), (int, float)) and rng.random() < 0.5:
                            nv = float(x['max_cap']) + gen.pick(rng, [1., 2.5])
                            a.max_cap = x['max_cap'] = nv
                        elif not x.get('freq') and not x.get('min_take') and not x.get('max_take'):
                            # another lifetime
                            ns_, ne_, _k = gen.gen_window(rng, spec['grid'], kinds=['inside', 'straddle_start', 'straddle_end', 'start_only', 'end_only', 'none'])
                            x['start'] = ns_; x['end'] = ne_; x.pop('_date_form', None)
                            a.start = None if ns_ is None else pd.Timestamp(ns_).to_pydatetime(); a.end = None if ne_ is None else pd.Timestamp(ne_).to_pydatetime()
                        outcome = 'changed a parameter of ' + tn
                elif op == 'failing_call':
                    bad = dict(pr2); bad.pop(keys[0], None)
                    try:
                        P.setup_optim_problem(bad, tg2)
                    except Exception:
                        outcome = 'raised(as intended)'
                executed += 1
            except Exception as e:
                outcome = 'raised %s: %s' % (type(e).__name__, str(e)[:80])
                executed += 1
            hist.append([op, g2, outcome])
            case.feature('op:' + op)
        # ---- the documented asset-level route first (before the portfolio-level probe re-aligns all grids): set_timegrid(grid), then set-up WITHOUT
        #      grid argument - on the used and on freshly built objects
        if rng.random() < 0.4:
            try:
                b3 = build(spec)
            except Exception:
                b3 = None
            if b3 is not None:
                b4 = build(spec)
                shared_tg = None
                if rng.random() < 0.5:
                    # all assets are handed ONE grid object first (as Portfolio.set_timegrid does), then each is set up on its own without grid argument
                    try:
                        shared_tg = build_timegrid(spec['grid'])
                        for au in P.assets:
                            au.set_timegrid(shared_tg)
                        case.feature('assets_alone_on_one_shared_grid')
                    except Exception:
                        shared_tg = None
                for au, af, ag in zip(P.assets, b3.portfolio.assets, b4.portfolio.assets):
                    try:
                        sfa = Snap(ag.setup_optim_problem(b4.prices, build_timegrid(spec['grid'])))          # reference: fresh object, grid given explicitly
                    except Exception:
                        continue
                    try:
                        af.set_timegrid(build_timegrid(spec['grid'])); sff = Snap(af.setup_optim_problem(b3.prices))
                        dq = problem_diff(sff, sfa, rtol=1e-12, compare_mapping=True)
                        case.check('purity.asset_alone_without_grid_argument_same_as_fresh', dq is None, asset=type(af).__name__, fresh_object=True, diff=dq)
                    except Exception as e:
                        case.check('purity.asset_alone_without_grid_argument_same_as_fresh', False, asset=type(af).__name__, fresh_object=True, error='%s: %s' % (type(e).__name__, str(e)[:160]))
                    try:
                        if shared_tg is None:
                            au.set_timegrid(build_timegrid(spec['grid']))
                        sua = Snap(au.setup_optim_problem(b.prices))
                        da = problem_diff(sua, sfa, rtol=1e-12, compare_mapping=True)
                        case.check('purity.asset_alone_without_grid_argument_same_as_fresh', da is None, asset=type(au).__name__, history=hist, diff=da)
                    except Exception as e:
                        case.check('purity.asset_alone_without_grid_argument_same_as_fresh', False, asset=type(au).__name__, history=hist, error='%s: %s' % (type(e).__name__, str(e)[:160]))
        # ---- probe on the used objects vs fresh objects
        probe_exc = None; fresh_exc = None
        try:
            tgp = build_timegrid(spec['grid']) if rng.random() < 0.5 else b.timegrid
            oph = P.setup_optim_problem(b.prices, tgp) if fw_user is None else P.setup_optim_problem(b.prices, tgp, fix_time_window=fw_user)
            sh = Snap(oph)
        except Exception as e:
            probe_exc = e
        try:
            b2 = build(spec)
            if fw_user is None:
                opf = b2.portfolio.setup_optim_problem(b2.prices, b2.timegrid)
            else:
                opf = b2.portfolio.setup_optim_problem(b2.prices, b2.timegrid, fix_time_window={'I': fw_date, 'x': np.zeros(200000)})
            sf = Snap(opf)
        except Exception as e:
            fresh_exc = e
    case.key = env.spec_key([gen.strip_private(spec), hist]); case.sample = {'portfolio': gen.abbreviate(spec), 'history': hist}
    case.spec['history'] = hist
    if fresh_exc is not None:
        case.reject('fresh set-up fails: %s %s' % (type(fresh_exc).__name__, str(fresh_exc)[:100])); return
    if probe_exc is None and fw_user is None:
        # the cost vector alone (documented costs_only route - price samples, robust, SLP) for the probe's grid and prices is the cost vector of the
        # probe problem, whatever grids the objects have seen before
        try:
            with env.quiet():
                c_only = np.asarray(P.setup_optim_problem(b.prices, tgp, costs_only=True), float)
            same_c = c_only.shape == sh.c.shape and bool(np.allclose(c_only, sh.c, rtol=1e-12, atol=0.))
            case.check('purity.cost_vector_equals_problem_costs', same_c, history=hist,
                       worst=float(np.max(np.abs(c_only - sh.c))) if c_only.shape == sh.c.shape and len(c_only) else None, n=[len(c_only), len(sh.c)])
        except Exception as e:
            case.check('purity.cost_vector_equals_problem_costs', False, history=hist, error='%s: %s' % (type(e).__name__, str(e)[:160]))
    # the split set-up with a window given as a date, on the used objects vs. freshly built ones (the date refers to the grid handed in, whatever grid
    # the portfolio has seen last)
    if not spec['grid']['freq'].endswith('d') and rng.random() < 0.25:
        try:
            with env.quiet():
                pts_ = gen.grid_points(spec['grid'])
                dsp = pts_[int(rng.integers(0, len(pts_)))]
                isz = gen.pick(rng, ['6h', '12h', 'd'])
                mk_fw = lambda: {'I': dsp if rng.random() < 0.5 else dsp.to_pydatetime(), 'x': np.zeros(200000)}
                try:
                    b6 = build(spec)
                    sf_ = b6.portfolio.setup_split_optim_problem(b6.prices, b6.timegrid, interval_size=isz, fix_time_window=mk_fw())
                except Exception as e7:
                    sf_ = None
                    if not isinstance(e7, AssertionError):
                        # freshly built objects: the plain set-up accepts this window, the split set-up (same documented argument) must as well
                        try:
                            b7 = build(spec); b7.portfolio.setup_optim_problem(b7.prices, b7.timegrid, fix_time_window=mk_fw()); b8 = build(spec)
                            b8.portfolio.setup_split_optim_problem(b8.prices, b8.timegrid, interval_size=isz)
                            case.check('purity.split_setup_with_date_window_works_on_fresh_objects', False, interval=isz, error='%s: %s' % (type(e7).__name__, str(e7)[:160]))
                        except Exception:
                            pass
                if sf_ is not None:
                    gq = other_grid(rng, spec)
                    if gq is not None:
                        try:          # (the portfolio has last been used on another horizon)
                            P.setup_optim_problem({k: np.asarray(v) for k, v in gen.gen_prices(rng, len(gen.grid_points(gq)), keys).items()}, build_timegrid(gq))
                        except Exception:
                            pass
                    try:
                        su_ = P.setup_split_optim_problem(b.prices, build_timegrid(spec['grid']), interval_size=isz, fix_time_window=mk_fw())
                        dsu = None
                        if len(su_.ops) != len(sf_.ops):
                            dsu = 'number of intervals %d vs %d' % (len(su_.ops), len(sf_.ops))
                        else:
                            for k_, (o1, o2) in enumerate(zip(su_.ops, sf_.ops)):
                                dk = problem_diff(Snap(o1), Snap(o2), rtol=1e-12, compare_mapping=False)
                                if dk:
                                    dsu = 'interval %d: %s' % (k_, dk); break
                        case.check('purity.split_problem_with_date_window_same_as_fresh', dsu is None, history=hist, diff=dsu, interval=isz)
                    except Exception as e6:
                        case.check('purity.split_problem_with_date_window_same_as_fresh', False, history=hist, interval=isz, error='%s: %s' % (type(e6).__name__, str(e6)[:160]))
        except Exception:
            pass
    # user-supplied price data: unchanged by everything that was done with them
    pr_now_changed = [k_ for k_, v_ in b.prices.items() if not np.array_equal(np.asarray(v_, float), np.asarray(spec['prices'][k_], float))]
    case.check('purity.price_data_untouched', not pr_now_changed, history=hist, changed_keys=pr_now_changed[:4])
    case.check('purity.probe_does_not_raise', probe_exc is None, history=hist, error=None if probe_exc is None else '%s: %s' % (type(probe_exc).__name__, str(probe_exc)[:200]))
    if probe_exc is None:
        d = problem_diff(sh, sf, rtol=1e-12, compare_mapping=True)
        case.check('purity.same_problem_as_fresh', d is None, history=hist, diff=d)
    case.nontrivial = executed >= 2
