"""C16 Scaled and structured assets are equivalent to what they wrap."""
import copy
import numpy as np
import pandas as pd
from .. import env, attach, gen, flow, solve
from ..spec import Clock
from ..canon import Snap

PROPERTY = 'C16'
CASES = {'quick': 540, 'thorough': 4320}
BUDGET_S = {'quick': 300, 'thorough': 2400}
RULE = ('case A (scaled) = a base asset (Storage, SimpleContract, Contract with take, Transport, ExtendedTransport, MultiCommodityContract; windows, '
        'norm != 1, fixed cost rate, grids with freq != main unit) wrapped in a ScaledAsset inside a portfolio with markets, run through the real '
        'code: (a) min_scale = max_scale = s: value = value of the EAO portfolio built from the spec with all volume/rate parameters of the base '
        'multiplied by s/norm, minus s*fix_costs*active duration; (b) free scale: fixing the scale at EAO\'s reported optimum reproduces the value, '
        'and the free optimum is >= the fixed-scale value for 5 sampled scales in [min, max]. case B (structured) = a StructuredAsset (also nested) '
        'vs. the flat portfolio with the inner assets at the same position: c, l, u equal, the structured solution is feasible in the flat problem, '
        'optimal values equal, external-node dispatch of the structured asset = sum of the inner assets\' dispatch at that node in a flat optimum '
        'of equal value. Non-trivial: scaled/structured asset carries flow; distinct = spec hashes.')
ASSUMPTIONS = ['active duration of the fixed costs = the scaled asset\'s own window clipped to the horizon; the base asset is active in the intersection of its own and the wrapper\'s window',
               'levels, inflow, size and take volumes are volumes/rates of the base and scale with s/norm',
               'value tolerance 1e-5 relative']
MIN_NONVACUOUS = {'quick': {'scaled.fixed_scale_equals_scaled_parameters': 62, 'scaled.free_scale_is_best': 50, 'scaled.free_scale_reproduced_when_fixed': 37,
                            'structured.value_equals_flat': 50, 'structured.solution_feasible_in_flat': 50},
                  'thorough': {'scaled.fixed_scale_equals_scaled_parameters': 450, 'scaled.free_scale_is_best': 300, 'structured.value_equals_flat': 400}}
VOL_KEYS = ('min_cap', 'max_cap', 'cap_in', 'cap_out', 'size', 'start_level', 'end_level', 'inflow')


def scale_base(b, fac):
    b = copy.deepcopy(b)
    for k in VOL_KEYS:
        if k in b and b[k] is not None and not isinstance(b[k], (str, dict)):
            b[k] = b[k] * fac
        elif isinstance(b.get(k), dict):
            b[k] = dict(b[k], values=[v * fac for v in b[k]['values']])
    for k in ('min_take', 'max_take'):
        if b.get(k):
            b[k] = dict(b[k], values=[v * fac for v in b[k]['values']])
    if b.get('orders'):
        b['orders'] = dict(b['orders'], capa=[v * fac for v in b['orders']['capa']])
    return b


def gen_scaled(rng):
    g = gen.gen_grid(rng, steps=(4, 24))
    f = gen.UNIT_F[g['unit']]
    T = len(gen.grid_points(g))
    nn = int(rng.integers(1, 3)); nodes = ['n%d' % i for i in range(nn)]
    assets = []; pk = ['qb']
    for i, n in enumerate(nodes):
        assets.append(gen.gen_market(rng, 'mkt%d' % i, n, f, 'p%d' % i, wacc=0.)); pk.append('p%d' % i)
    kind = gen.pick(rng, ['storage', 'storage', 'simple', 'contract', 'contract', 'transport', 'exttransport', 'multi', 'storage_mip', 'plant', 'orderbook'])
    if kind == 'storage':
        b = gen.gen_storage(rng, g, 'base', [nodes[0]] if (nn == 1 or rng.random() < 0.6) else nodes[:2], f, price_key='qb', window=True)
        if b['size'] == 0: b['size'] = 8.
    elif kind in ('simple', 'contract'):
        b = gen.gen_contract(rng, g, 'base', nodes[0], f, 'qb', window=True, take=True, simple=(kind == 'simple'), dict_caps=False)
    elif kind in ('transport', 'exttransport') and nn > 1:
        b = gen.gen_transport(rng, g, 'base', nodes[0], nodes[1], f, cost_key='qb', window=True, extended=(kind == 'exttransport'))
    elif kind == 'multi' and nn > 1:
        b = gen.gen_multicommodity(rng, g, 'base', nodes[:2], f, 'qb')
    elif kind == 'orderbook':
        b = gen.gen_orderbook(rng, g, 'base', nodes[0], n_orders=int(rng.integers(1, 8)), full_exec=False)      # (orders partly outside the horizon: variables without mapping)
        b.pop('_orders_tz', None)
    elif kind == 'storage_mip':
        b = gen.gen_storage(rng, g, 'base', [nodes[0]], f, window=False, mip=True, inflow=False)
        b['start_level'] = 0.; b['end_level'] = 0.; b['size'] = max(b['size'], 5.)
    elif kind == 'plant':
        b = gen.gen_plant(rng, g, 'base', [nodes[0]], f, 'qb', simple=True, ramp_profiles=False)
    else:
        b = gen.gen_contract(rng, g, 'base', nodes[0], f, 'qb', window=True, take=False, simple=True, dict_caps=False)
        kind = 'simple'
    b['wacc'] = 0.
    free = rng.random() < 0.5
    norm = gen.pick(rng, [1., 2., 0.5])
    if free:
        mn, mx = gen.pick(rng, [(0., 1.), (0., 3.), (0.5, 2.)])
    else:
        s = gen.pick(rng, [0.5, 1., 2., 3.]); mn = mx = s
    sc = {'type': 'ScaledAsset', 'name': 'SC', 'base': b, 'min_scale': mn, 'max_scale': mx, 'norm_scale': norm,
          'fix_costs': gen.r2(gen.pick(rng, [0., 0.05, 0.5]) * f), 'wacc': gen.pick(rng, [0., 0., 0.5, 2.]),
          'start': b.get('start') if rng.random() < 0.7 else None, 'end': b.get('end') if rng.random() < 0.7 else None}
    r_ = rng.random()
    if r_ < 0.35:
        # the wrapper has a lifetime of its own (the base is then active in the intersection of both windows; fix costs accrue over the wrapper's)
        sc['start'], sc['end'], _k = gen.gen_window(rng, g, kinds=['inside', 'inside', 'straddle_start', 'straddle_end', 'start_only', 'end_only', 'after', 'before'])
        if rng.random() < 0.5:
            b['start'] = None; b['end'] = None
    elif (sc['start'] is None) != (b.get('start') is None) or (sc['end'] is None) != (b.get('end') is None):
        # wrapper window = base window, or neither has one
        b['start'] = None; b['end'] = None; sc['start'] = None; sc['end'] = None
    if kind == 'orderbook':
        sc['start'] = None; sc['end'] = None; b.pop('start', None); b.pop('end', None)      # (an order book has no lifetime parameters; lifetimes around order books: C08)
    assets.append(sc)
    for j in range(int(rng.integers(0, 2))):
        pk.append('q%d' % j)
        assets.append(gen.gen_contract(rng, g, 'c%d' % j, gen.pick(rng, nodes), f, 'q%d' % j, take=False))
    perm = rng.permutation(len(assets)); assets = [assets[int(i)] for i in perm]
    return {'grid': g, 'assets': assets, 'prices': gen.gen_prices(rng, T, sorted(set(pk)))}, kind, free


def with_fixed_scale(spec, s):
    sp = copy.deepcopy(spec)
    for a in sp['assets']:
        if a['type'] == 'ScaledAsset':
            a['min_scale'] = s; a['max_scale'] = s
    return sp


def plain_equivalent(spec, s):
    """the portfolio with the base asset's volume/rate parameters multiplied by s/norm instead of the scaled asset."""
    sp = copy.deepcopy(spec)
    out = []
    for a in sp['assets']:
        if a['type'] == 'ScaledAsset':
            b = scale_base(a['base'], s / a['norm_scale'])
            # the base is active where the wrapper AND the base are
            import pandas as pd
            if a.get('start') is not None:
                b['start'] = a['start'] if b.get('start') is None else str(max(pd.Timestamp(a['start']), pd.Timestamp(b['start'])))
            if a.get('end') is not None:
                b['end'] = a['end'] if b.get('end') is None else str(min(pd.Timestamp(a['end']), pd.Timestamp(b['end'])))
            out.append(b)
        else:
            out.append(a)
    sp['assets'] = out
    return sp


def run_scaled(rng, tier, case):
    spec, kind, free = gen_scaled(rng)
    sp = gen.strip_private(spec)
    sc = [a for a in sp['assets'] if a['type'] == 'ScaledAsset'][0]
    ck = Clock(sp['grid'])
    case.feature('scaled:' + kind, 'free_scale' if free else 'fixed_scale', 'norm:%g' % sc['norm_scale'], 'window' if sc.get('start') or sc.get('end') else 'no_window',
                 'freq:' + sp['grid']['freq'], 'unit:' + sp['grid']['unit'])
    case.key = env.spec_key(sp); case.sample = gen.abbreviate(spec); case.spec = spec
    built_h = None
    if rng.random() < 0.35:
        # rolling use: the same objects were set up before on a grid of ANOTHER duration (same start, other end, other grid object, other prices);
        # nothing of that grid (active duration of the fix costs, restricted grid) may stay behind
        try:
            import pandas as pd
            from ..spec import build, build_timegrid
            with attach.paused(), env.quiet():
                built_h = build(sp)
                g0 = dict(sp['grid']); span = pd.Timestamp(g0['end']) - pd.Timestamp(g0['start'])
                g0['end'] = str(pd.Timestamp(g0['start']) + span * int(gen.pick(rng, [2, 3, 4])))
                if gen.local_ok(g0['end'], g0.get('tz')):
                    tg0 = build_timegrid(g0)
                    pr0 = {k: np.asarray(v, float) for k, v in gen.gen_prices(rng, tg0.T, sorted(sp['prices'])).items()}
                    built_h.portfolio.setup_optim_problem(pr0, tg0)
                    case.feature('set_up_before_on_a_longer_grid')
                else:
                    built_h = None
        except Exception:
            built_h = None        # (only history; if the longer grid cannot be set up the case runs on fresh objects)
    via_json = built_h is None and rng.random() < 0.2
    if via_json:
        case.feature('portfolio_from_its_json_form')          # (the scaled asset stored and loaded before use: it is still the asset that was described)
    r = flow.run_portfolio(sp, built=built_h, via_json=via_json)
    who = {'base': sc['base']['type'], 'kind': kind, 'norm': sc['norm_scale'], 'fix_costs': sc['fix_costs'], 'used_before': built_h is not None}
    if not r.ok:
        if isinstance(r.error, AssertionError):
            case.reject(flow.describe_error(r)); return
        case.check('scaled.setup_works', False, **who, error=flow.describe_error(r)); return
    case.check('scaled.setup_works', True, **who)
    if not r.solved:
        case.inconc('not solved: ' + str(r.res)); return
    V = float(r.res.value)
    # the cost vector alone (costs_only: price samples, robust, SLP) is the cost vector of the problem - also for the scale variable's fix costs
    try:
        with env.quiet(), attach.paused():
            c_only = np.asarray(r.built.portfolio.setup_optim_problem(r.built.prices, r.built.timegrid, costs_only=True), float)
        cfull = np.asarray(r.op.c, float)
        case.check('scaled.cost_vector_equals_problem_costs', c_only.shape == cfull.shape and bool(np.allclose(c_only, cfull, rtol=1e-12, atol=0.)), **who,
                   worst=float(np.max(np.abs(c_only - cfull))) if c_only.shape == cfull.shape and len(cfull) else None)
    except Exception as e:
        case.check('scaled.cost_vector_equals_problem_costs', False, **who, error='%s: %s' % (type(e).__name__, str(e)[:160]))
    W = ck.window(sc.get('start'), sc.get('end'))
    dur = float(ck.dt[W].sum())
    special = r.out['special']
    row = special[(special['asset'] == 'SC') & (special['name'] == 'scale')]
    Wb = sorted(set(ck.window(sc['base'].get('start'), sc['base'].get('end'))) & set(W))
    if not Wb and W:
        case.feature('wrapper_active_base_not'); case.nontrivial = False      # (fix costs of a wrapper whose base is never active: not defined sharply - no claim)
        return
    if not Wb:
        # base asset (and wrapper) without any step in the horizon: the scaled asset is inert
        case.feature('scaled_asset_outside_horizon')
        rp = flow.run_portfolio(plain_equivalent(sp, max(sc['min_scale'], 1e-9)), do_extract=False)
        if rp.ok and rp.solved:
            case.check('scaled.inactive_is_inert', abs(float(rp.res.value) - V) <= solve.TOL_VAL * (1 + abs(V)), **who, value=V, plain=float(rp.res.value))
        return
    if len(row) != 1:
        case.check('scaled.scale_reported', False, **who, rows=len(row)); return
    s_star = float(row['value'].iloc[0])
    case.check('scaled.scale_reported', sc['min_scale'] - 1e-6 <= s_star <= sc['max_scale'] + 1e-6, **who, scale=s_star, range=[sc['min_scale'], sc['max_scale']])
    mip = gen.is_mip(sp)
    tolv = (solve.TOL_VAL_MIP if mip else solve.TOL_VAL)
    flowed = False
    m = r.op.mapping
    x = np.asarray(r.res.x)
    idx = m[(m['asset'] == 'SC') & (m['type'] == 'd')].index.unique()
    flowed = bool(len(idx) and np.abs(x[np.asarray(idx, int)]).max() > 1e-6)

    def plain_value(s):
        rp = flow.run_portfolio(plain_equivalent(sp, s), do_extract=False)
        if not rp.ok:
            return None, flow.describe_error(rp)
        if not rp.solved:
            return None, str(rp.res)
        return float(rp.res.value) - s * sc['fix_costs'] * dur, None

    if not free:
        s = sc['min_scale']
        ve, err = plain_value(s)
        if ve is None:
            case.check('scaled.fixed_scale_equals_scaled_parameters', False, **who, scale=s, error=err); return
        case.check('scaled.fixed_scale_equals_scaled_parameters', abs(V - ve) <= tolv * (1 + abs(ve)), nonvacuous=flowed or sc['fix_costs'] != 0, **who, scale=s, scaled_asset=V,
                   plain_portfolio_minus_fix=ve, duration=dur, window=[sc.get('start'), sc.get('end')])
    else:
        # fixing the scale at the reported optimum reproduces the value
        rf = flow.run_portfolio(with_fixed_scale(sp, s_star), do_extract=False)
        if rf.ok and rf.solved:
            # (two solver runs: the tolerance is relative to the gross cash flows of the solution - a value near zero is a difference of large flows)
            gross = float(np.abs(np.asarray(rf.op.c, float) * np.asarray(rf.res.x, float)).sum())
            case.check('scaled.free_scale_reproduced_when_fixed', abs(float(rf.res.value) - V) <= tolv * (1 + abs(V) + gross), nonvacuous=flowed, **who, scale=s_star, free=V, fixed=float(rf.res.value),
                       gross_cash_flows=gross)
        ok = True; bad = None
        for s in list(rng.uniform(sc['min_scale'], sc['max_scale'], 3)) + [sc['min_scale'], sc['max_scale']]:
            ve, err = plain_value(float(s))
            if ve is None:
                continue
            if ve > V + tolv * (1 + abs(V)):
                ok = False; bad = {'scale': float(s), 'value_at_that_scale': ve, 'free_optimum': V, 'reported_scale': s_star}
        case.check('scaled.free_scale_is_best', ok, nonvacuous=True, **who, bad=bad)
    case.nontrivial = flowed


def flatten(spec):
    import pandas as pd
    sp = copy.deepcopy(spec)
    out = []
    def rec(a, ws=None, we=None):
        if a['type'] == 'StructuredAsset':
            for x in a['assets']:
                rec(x, a.get('start', ws), a.get('end', we))
        else:
            # a wrapped asset is active in the intersection of its own window and the structured asset's (a wrapped asset without a window of its
            # own in the structured asset's window)
            if ws is not None:
                a['start'] = str(max(pd.Timestamp(a['start']), pd.Timestamp(ws))) if a.get('start') is not None else ws
            if we is not None:
                a['end'] = str(min(pd.Timestamp(a['end']), pd.Timestamp(we))) if a.get('end') is not None else we
            out.append(a)
    for a in sp['assets']:
        rec(a)
    sp['assets'] = out
    return sp


def run_structured(rng, tier, case):
    base = gen.gen_mixed_portfolio(rng, kinds=('structured', 'structured', 'contract', 'storage', 'transport'), grid_kw={'steps': (4, 24)}, n_assets=(2, 4), n_nodes=(1, 3), mip_ok=False)
    sp = gen.strip_private(base)
    structs = [a for a in sp['assets'] if a['type'] == 'StructuredAsset']
    if not structs:
        # make sure there is one
        g = sp['grid']; f = gen.UNIT_F[g['unit']]
        inner = [gen.strip_private(gen.gen_storage(rng, g, 'st_s', ['inner0'], f, window=False)),
                 gen.strip_private(gen.gen_transport(rng, g, 'st_t', 'inner0', 'n0', f, window=False, extended=False))]
        sp['assets'].append({'type': 'StructuredAsset', 'name': 'struct', 'nodes': ['n0'], 'assets': inner})
        structs = [sp['assets'][-1]]
    if rng.random() < 0.3:
        # nested: wrap the first structured asset once more together with a transport to a fresh inner node
        s0 = structs[0]
        i = sp['assets'].index(s0)
        g = sp['grid']; f = gen.UNIT_F[g['unit']]
        ext = s0['nodes'][0]
        outer = {'type': 'StructuredAsset', 'name': 'outer', 'nodes': [ext], 'assets': [s0,
                 {'type': 'SimpleContract', 'name': 'outer_c', 'nodes': [ext], 'price': sorted(sp['prices'])[0], 'min_cap': -1. * f, 'max_cap': 1. * f, 'extra_costs': 0.1}]}
        sp['assets'][i] = outer
        case.feature('nested')
    if rng.random() < 0.3:
        # the structured asset gets a lifetime of its own: the wrapped assets (all given explicit start AND end) are active in the intersection,
        # which is what the flat portfolio gets as windows
        import pandas as pd
        g = sp['grid']
        tz = g.get('tz')
        s0 = [a for a in sp['assets'] if a['type'] == 'StructuredAsset'][0]
        ws, we, _k = gen.gen_window(rng, g, kinds=['inside', 'straddle_start', 'straddle_end'])
        if ws is not None and we is not None and all(x['type'] != 'StructuredAsset' for x in s0['assets']):
            far0 = str(pd.Timestamp(g['start']) - pd.Timedelta(days=3)); far1 = str(pd.Timestamp(g['end']) + pd.Timedelta(days=3))
            if gen.local_ok(far0, tz) and gen.local_ok(far1, tz):
                s0['start'] = ws; s0['end'] = we
                for x in s0['assets']:
                    i_s, i_e, _k2 = gen.gen_window(rng, g, kinds=['inside', 'straddle_start', 'straddle_end', 'none', 'none'])
                    if x['type'] == 'Storage' or _k2 != 'none':
                        x['start'] = i_s if i_s is not None else far0
                        x['end'] = i_e if i_e is not None else far1
                case.feature('structured_with_window')
    flat = flatten(sp)
    case.feature('structured')
    case.key = env.spec_key(sp); case.sample = gen.abbreviate(sp); case.spec = sp
    rs = flow.run_portfolio(sp)
    if not rs.ok:
        case.reject('structured: ' + flow.describe_error(rs)); return
    rf = flow.run_portfolio(flat)
    if not rf.ok:
        case.reject('flat: ' + flow.describe_error(rf)); return
    s1 = Snap(rs.op); s2 = Snap(rf.op)
    # the cost vector alone (costs_only: price samples, robust, SLP) of the structured portfolio is the cost vector of its problem
    try:
        with env.quiet(), attach.paused():
            c_only = np.asarray(rs.built.portfolio.setup_optim_problem(rs.built.prices, rs.built.timegrid, costs_only=True), float)
        case.check('structured.cost_vector_equals_problem_costs', c_only.shape == s1.c.shape and bool(np.allclose(c_only, s1.c, rtol=1e-12, atol=0.)), n_cost_vector=len(c_only), n_problem=len(s1.c))
    except Exception as e:
        case.check('structured.cost_vector_equals_problem_costs', False, error='%s: %s' % (type(e).__name__, str(e)[:160]))
    same = len(s1.c) == len(s2.c) and np.array_equal(s1.c, s2.c) and np.array_equal(s1.l, s2.l) and np.array_equal(s1.u, s2.u)
    case.check('structured.same_variables_as_flat', bool(same), n_struct=len(s1.c), n_flat=len(s2.c))
    if not (rs.solved and rf.solved):
        if isinstance(rs.res, str) != isinstance(rf.res, str) and 'inaccurate' not in (rs.res, rf.res):
            case.check('structured.value_equals_flat', False, structured=str(rs.res)[:20], flat=str(rf.res)[:20])
        else:
            case.inconc('not solved')
        return
    v1, v2 = float(rs.res.value), float(rf.res.value)
    xs = np.asarray(rs.res.x, float)
    flowed = bool(np.abs(xs).max() > 1e-6)
    case.check('structured.value_equals_flat', abs(v1 - v2) <= solve.TOL_VAL * (1 + abs(v2)), nonvacuous=flowed, structured=v1, flat=v2)
    if same:
        res = solve.residuals(s2, xs)
        case.check('structured.solution_feasible_in_flat', max(res['bound'], res['rows']) <= solve.TOL_FEAS, nonvacuous=flowed, bound=res['bound'], rows=res['rows_by_class'])
        # external dispatch: the structured asset's dispatch at its external node = sum of the inner assets' dispatch there, evaluated with the
        # SAME x through the flat portfolio's own mapping (x_struct is an optimum of the flat problem)
        for st in [a for a in sp['assets'] if a['type'] == 'StructuredAsset']:
            ext = st['nodes'][0]
            single = len(rs.built.portfolio.nodes) == 1
            col = st['name'] if single else '%s (%s)' % (st['name'], ext)
            got = rs.out['dispatch'][col].values.astype(float)
            names = [x['name'] for x in flatten({'assets': [st], 'grid': sp['grid'], 'prices': {}})['assets']]
            mf = s2.mapping
            want = np.zeros(len(got))
            rows = mf[(mf['asset'].isin(names)) & (mf['type'] == 'd') & (mf['node'] == ext)]
            dfac = rows['disp_factor'].astype(float).fillna(1.).values if 'disp_factor' in rows.columns else np.ones(len(rows))
            for i, t, fct in zip(rows.index, rows['time_step'], dfac):
                want[int(t)] += xs[int(i)] * fct
            case.check('structured.external_dispatch_equals_flat', bool(np.abs(got - want).max() <= 1e-6 * (1 + np.abs(want).max())), nonvacuous=bool(np.abs(want).max() > 1e-6),
                       struct=st['name'], node=ext, worst=float(np.abs(got - want).max()))
    case.nontrivial = flowed
    # the same objects again after the structured asset's window was removed / moved: still the flat portfolio of the same assets (nothing of the
    # first window may stay behind on the wrapped assets)
    tops = [a for a in sp['assets'] if a['type'] == 'StructuredAsset' and (a.get('start') or a.get('end'))]
    if tops and rng.random() < 0.7:
        st = tops[0]
        obj = [o for o in rs.built.portfolio.assets if o.name == st['name']][0]
        sp2 = copy.deepcopy(sp)
        st2 = [a for a in sp2['assets'] if a['name'] == st['name']][0]
        if rng.random() < 0.5:
            st2['start'] = None; st2['end'] = None; obj.start = None; obj.end = None
        else:
            ws2, we2, _k3 = gen.gen_window(rng, sp['grid'], kinds=['inside', 'straddle_start', 'straddle_end'])
            import pandas as pd
            st2['start'] = ws2; st2['end'] = we2
            tzq = sp['grid'].get('tz')
            obj.start = None if ws2 is None else pd.Timestamp(ws2).to_pydatetime(); obj.end = None if we2 is None else pd.Timestamp(we2).to_pydatetime()      # (naive, as built)
        rs2 = flow.run_portfolio(sp2, built=rs.built, do_extract=False)
        rf2 = flow.run_portfolio(flatten(sp2), do_extract=False)
        if rs2.ok and rf2.ok and rs2.solved and rf2.solved:
            va, vb = float(rs2.res.value), float(rf2.res.value)
            case.check('structured.value_equals_flat_after_window_change', abs(va - vb) <= solve.TOL_VAL * (1 + abs(vb)), structured=va, flat=vb,
                       new_window=[st2.get('start'), st2.get('end')], old_window=[st.get('start'), st.get('end')])
        elif rs2.ok != rf2.ok:
            case.check('structured.value_equals_flat_after_window_change', False, structured_error=None if rs2.ok else flow.describe_error(rs2), flat_error=None if rf2.ok else flow.describe_error(rf2))


def run_case(rng, tier, case):
    if rng.random() < 0.65:
        run_scaled(rng, tier, case)
    else:
        run_structured(rng, tier, case)


def _is_f12(v, rec):
    # ScaledAsset over a base asset with internal (non-dispatch) variables: MIP storage options, Plant / CHPAsset
    return v.get('clause') == 'scaled.setup_works' and v.get('kind') in ('storage_mip', 'plant') and 'ValueError' in str(v.get('error'))


CLASSIFIERS = {'c16_scaled_base_with_internal_variables': _is_f12}
