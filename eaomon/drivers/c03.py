"""C03 The optimiser returns a feasible, optimal point of the assembled problem."""
import numpy as np
import pandas as pd
import scipy.sparse as sp
from .. import env, attach, gen, flow, solve
from ..mon_problem import mon_optimize

PROPERTY = 'C03'
CASES = {'quick': 1120, 'thorough': 8960}
BUDGET_S = {'quick': 150, 'thorough': 1800}
SUITE_UNDER_MONITORS = True      # thorough tier: the repository's own tests are an extra workload under the passive monitors
RULE = ('case = one problem pushed through the real OptimProblem.optimize (or SplitOptimProblem.optimize) with a solver choice from '
        '{default, CLARABEL, SCIPY, SCIP}: (a) assembled from a random mixed portfolio (LP and MIP), (b) synthetic raw problem with all four row '
        'classes interleaved, duplicated mapping rows and boolean flags on variables with bounds such as [-0.3, 1.6], random costs so rows of '
        'every class bind, (c) the same made clearly infeasible (margin >= 1). Every optimize return is judged against the recorded problem '
        'and an independent HiGHS solve. Non-trivial: a success with >=1 binding row or a reported failure; distinct = hash of the problem data.')
ASSUMPTIONS = ['a variable is boolean iff its mapping rows flag it (flags are generated consistently over duplicated rows)',
               'ortools is not installed: that interface is not exercised', 'results flagged inaccurate make no claim (counted)',
               'first-order solvers OSQP/SCS are excluded (no sharp solver tolerance)',
               'tolerances: feasibility 1e-6 scaled, value 1e-5 (MIP 2e-4) relative']
MIN_NONVACUOUS = {'quick': {'opt.rows_U': 170, 'opt.rows_L': 136, 'opt.rows_S': 102, 'opt.rows_N': 170, 'opt.booleans': 102,
                            'opt.no_better_point': 340, 'opt.failure_means_infeasible': 42, 'opt.value_is_minus_cx': 340, 'opt.status_mapping': 680},
                  'thorough': {'opt.rows_U': 2000, 'opt.rows_L': 1500, 'opt.rows_S': 1000, 'opt.rows_N': 2000, 'opt.booleans': 1000,
                               'opt.no_better_point': 4000, 'opt.failure_means_infeasible': 500}}
LP_SOLVERS = [None, None, 'CLARABEL', 'SCIPY', 'SCIP']
MIP_SOLVERS = [None, None, None, 'SCIP', 'SCIP', 'SCIPY', 'SCIPY', 'CLARABEL']     # CLARABEL cannot solve MIPs: cvxpy raises SolverError (no claim); a reported failure would be a claim
MIP_SOLVERS_REPEATED = [None, None, 'SCIP']      # (SCIPY on MIPs: known finding F23, kept out of the repeated-call mode)


def synthetic(rng, infeasible=False):
    from eaopack.optimization import OptimProblem
    n = int(rng.integers(3, 13)); m = int(rng.integers(2, 11))
    mip = rng.random() < 0.5
    l = np.round(rng.uniform(-5, 0, n), 1); u = np.round(l + rng.uniform(0.5, 8, n), 1)
    isb = np.zeros(n, bool)
    if mip:
        k = int(rng.integers(1, max(2, n // 2) + 1))
        isb[rng.permutation(n)[:k]] = True
        for j in np.where(isb)[0]:
            l[j], u[j] = [(0., 1.), (-0.3, 1.6), (0., 1.), (-0.3, 1.), (0., 2.5), (1., 1.), (0., 0.)][int(rng.integers(7))]
    frac_fixed = False
    if mip and rng.random() < 0.1:
        # one boolean whose bounds contain neither 0 nor 1 (e.g. pinned to a relaxed solution's 0.7): the problem has no feasible point
        j = int(np.where(isb)[0][0])
        l[j], u[j] = [(0.7, 0.7), (0.2, 0.6), (0.5, 0.5)][int(rng.integers(3))]
        frac_fixed = True
    x0 = np.round(rng.uniform(l, u), 2)
    big = []
    if not infeasible and rng.random() < 0.12 and (~isb).any():
        # quantities in small units (kW, W): a large value inside a narrow but material band, the upper part of which is needed
        for j in [int(q) for q in rng.permutation(np.where(~isb)[0])[:int(rng.integers(1, 3))]]:
            M = float(gen.pick(rng, [1e5, 4e5])); dlt = float(gen.pick(rng, [2., 3.]))
            l[j] = M; u[j] = M + dlt; x0[j] = M + np.round(0.7 * dlt, 1); big.append(j)
    for j in np.where(isb)[0]:
        cand = [v for v in (0., 1.) if l[j] <= v <= u[j]]
        x0[j] = cand[int(rng.integers(len(cand)))] if cand else l[j]
    A = sp.random(m, n, density=0.5, random_state=int(rng.integers(1 << 30)), data_rvs=lambda k: np.round(rng.uniform(-3, 3, k), 1)).tolil()
    for i in range(m):
        if A[i].nnz == 0:
            A[i, int(rng.integers(n))] = 1.
    ct = ''.join(gen.pick(rng, list('UULLSN')) for _ in range(m))
    ax = A @ x0
    b = np.zeros(m)
    for i, t in enumerate(ct):
        slack = float(np.round(rng.choice([0., 0., 0.5, 2.]), 2))
        b[i] = ax[i] + slack if t == 'U' else (ax[i] - slack if t == 'L' else ax[i])
    for j in big:
        # ... needed by a restriction on that variable alone
        Ad = np.asarray(A.todense()); row_ = np.zeros((1, n)); row_[0, j] = 1.
        A = sp.lil_matrix(np.vstack([Ad, row_])); b = np.append(b, x0[j]); ct += 'L'
    empty_row = None
    if not mip and rng.random() < 0.12:
        # a row WITHOUT any entry (a restriction whose variables are all outside the horizon): harmless if its right-hand side admits 0, otherwise
        # the problem has no feasible point
        t_ = gen.pick(rng, list('ULSN')); viol = rng.random() < 0.5
        bb = {'U': -1.5 if viol else 2., 'L': 1.5 if viol else -2., 'S': 1. if viol else 0., 'N': 1. if viol else 0.}[t_]
        pos_ = int(rng.integers(0, m + 1))
        Ad = np.asarray(A.todense()); Ad = np.insert(Ad, pos_, 0., axis=0); A = sp.lil_matrix(Ad)
        b = np.insert(b, pos_, bb); ct = ct[:pos_] + t_ + ct[pos_:]
        empty_row = {'row': pos_, 'type': t_, 'b': bb, 'violated': bool(viol)}
    all_fixed = None
    if not infeasible and not frac_fixed and rng.random() < 0.1:
        # EVERY variable pinned (l == u, e.g. a fix_time_window covering the whole horizon): the only candidate point either satisfies all rows
        # or - moved in one coordinate - breaks some of them; nothing is left to optimise, but the rows still have to be respected
        xf = x0.copy()
        moved = rng.random() < 0.6
        if moved:
            nb = np.where(~isb)[0]
            j = int(nb[int(rng.integers(len(nb)))]) if len(nb) else int(rng.integers(n))
            xf[j] += 1.
        l = xf.copy(); u = xf.copy()
        all_fixed = {'moved_off_the_rows': bool(moved)}
    if infeasible:
        a = np.round(rng.uniform(-2, 2, n), 1); a[a == 0] = 1.
        mx = float(np.sum(np.where(a > 0, a * u, a * l)))
        A = sp.vstack([A, sp.csr_matrix(a.reshape(1, -1))]).tolil()
        b = np.append(b, mx + 1. + rng.uniform(0, 3)); ct += 'L'
    c = np.round(rng.normal(0, 3, n), 1)
    one_sided = []
    if not infeasible and rng.random() < 0.15:
        # variables with ONE infinite bound (an unlimited purchase: max_cap = inf); the cost sign keeps the problem bounded
        for j in [int(q) for q in rng.permutation(np.where(~isb)[0])[:2]]:
            if rng.random() < 0.5:
                u[j] = np.inf; c[j] = abs(c[j]) + 0.1
            else:
                l[j] = -np.inf; c[j] = -abs(c[j]) - 0.1
            one_sided.append(j)
    # mapping with duplicated rows (several rows per variable), flags consistent per variable
    rows = []
    for j in range(n):
        for r in range(int(rng.choice([1, 1, 2, 3]))):
            rows.append((j, 'a%d' % (j % 3), 'n%d' % r, 'd' if r else 'd', j % 4, bool(isb[j])))
    order = rng.permutation(len(rows)) if rng.random() < 0.5 else np.arange(len(rows))
    rows = [rows[int(i)] for i in order]
    mp = pd.DataFrame(rows, columns=['idx', 'asset', 'node', 'type', 'time_step', 'bool']).set_index('idx')
    mp.index.name = None
    if not mip and rng.random() < 0.5:
        mp = mp.drop(columns=['bool'])
    op = OptimProblem(c=c, l=l.astype(float), u=u.astype(float), A=A, b=b, cType=ct, mapping=mp)
    desc = {'c': c.tolist(), 'l': l.tolist(), 'u': u.tolist(), 'A': np.asarray(A.todense()).round(3).tolist(), 'b': np.round(b, 4).tolist(),
            'cType': ct, 'bool': np.where(isb)[0].tolist(), 'map_index': [int(i) for i in mp.index], 'boolean_fixed_to_fraction': frac_fixed, 'one_sided_infinite_bounds': one_sided, 'empty_row': empty_row, 'all_fixed': all_fixed, 'large_values_in_narrow_band': big}
    return op, desc, mip


def run_case(rng, tier, case):
    mode = gen.pick(rng, ['portfolio', 'portfolio', 'portfolio', 'synthetic', 'synthetic', 'synthetic', 'synthetic', 'infeasible', 'portfolio_infeasible', 'split', 'split',
                          'repeated', 'repeated', 'scaled', 'robust'])
    case.feature('mode:' + mode)
    snap0 = None; scaled = False
    with attach.recording() as rec:
        if mode == 'scaled':
            # a very small asset in the units of a wholesale portfolio (capacities ~1e-6, prices ~1e6): the default LP solver only reaches reduced
            # accuracy. Here only the status handling is judged: what the solver flags as inaccurate must not be reported as success.
            scaled = True
            import pandas as pd
            from ..spec import build
            T = int(rng.integers(48, 160))
            ue = 10 ** -rng.uniform(5, 6.5); up = 1 / ue * 10 ** rng.uniform(-0.3, 0.3)
            p = 0.5 + 0.2 * np.sin(np.linspace(0, rng.uniform(20, 80), T)) + 0.05 * np.cos(np.linspace(0, 700, T))
            spec = {'grid': {'start': '2021-01-01 00:00:00', 'end': str(pd.Timestamp('2021-01-01') + pd.Timedelta(hours=T)), 'freq': 'h', 'unit': 'h', 'tz': None},
                    'assets': [{'type': 'SimpleContract', 'name': 'mkt', 'nodes': ['n0'], 'price': 'p', 'min_cap': -2e7 * ue, 'max_cap': 2e7 * ue, 'extra_costs': 0.},
                               {'type': 'Storage', 'name': 's', 'nodes': ['n0'], 'size': float(rng.uniform(10, 50)) * ue, 'cap_in': float(rng.uniform(1, 5)) * ue,
                                'cap_out': float(rng.uniform(1, 5)) * ue, 'eff_in': 0.9, 'start_level': 5 * ue, 'end_level': 5 * ue, 'cost_in': 0.003 * up, 'cost_out': 0.002 * up}],
                    'prices': {'p': [float(x) for x in p * up]}}
            case.key = env.spec_key(spec); case.sample = {'scaled_family': True, 'T': T, 'unit_energy': ue, 'unit_price': up}; case.spec = spec
            r = flow.run_portfolio(spec, do_extract=False, rec=rec)
            if not r.ok:
                case.reject(flow.describe_error(r))
        elif mode == 'robust':
            # optimize(target='robust', samples=cost samples of other price scenarios): the returned vector is judged against the assembled problem,
            # the reported value against minus (the problem's own) cost times that vector
            from ..spec import build
            spec = gen.gen_lp_portfolio(rng, grid_kw={'steps': (4, 16)}, n_assets=(1, 4), n_nodes=(1, 2))
            spec = gen.strip_private(spec)
            case.key = env.spec_key(spec); case.sample = dict(gen.abbreviate(spec), target='robust'); case.spec = spec
            try:
                with env.quiet():
                    b = build(spec)
                    T_ = b.timegrid.T
                    scen = [{k: np.asarray(v, float) for k, v in gen.gen_prices(rng, T_, sorted(spec['prices'])).items()} for _ in range(int(rng.integers(1, 4)))]
                    cs = b.portfolio.create_cost_samples(scen, b.timegrid)
                    op = b.portfolio.setup_optim_problem(b.prices, b.timegrid)
                    res_r = op.optimize(target=gen.pick(rng, ['robust', 'Robust']), samples=cs)
                # "no feasible point has a better value": for the robust target the value of a point is its minimum over the GIVEN samples; the best
                # attainable minimum comes from an independent max-min LP (variables x and z: max z, z <= -c_s.x for every sample, rows and bounds of the problem)
                if not isinstance(res_r, str):
                    from ..canon import Snap
                    sn = Snap(op)
                    A_, lo_, hi_ = solve.rows(sn)
                    nq = len(sn.c)
                    Az = sp.hstack([A_, sp.csr_matrix((A_.shape[0], 1))]).tocsr() if A_.shape[0] else sp.csr_matrix((0, nq + 1))
                    C_ = np.array([np.asarray(c_, float) for c_ in cs])
                    Asmp = sp.hstack([sp.csr_matrix(C_), sp.csr_matrix(np.ones((len(cs), 1)))]).tocsr()          # c_s.x + z <= 0
                    Aall = sp.vstack([Az, Asmp]).tocsr()
                    lo_all = np.concatenate([lo_, np.full(len(cs), -np.inf)]); hi_all = np.concatenate([hi_, np.zeros(len(cs))])
                    cz = np.zeros(nq + 1); cz[-1] = -1.
                    ref_r = solve.highs(cz, np.append(sn.l, -1e12), np.append(sn.u, 1e12), Aall, lo_all, hi_all)
                    if ref_r['status'] == 'optimal':
                        zstar = float(ref_r['x'][-1])
                        got = float(np.min(-C_ @ np.asarray(res_r.x, float)))
                        case.check('opt.robust_point_is_maxmin_optimal', got >= zstar - solve.TOL_VAL * (1 + abs(zstar)), minimum_over_samples_at_returned_point=got, best_attainable_minimum=zstar,
                                   samples=len(cs))
            except Exception as e:
                case.reject('robust run raised %s: %s' % (type(e).__name__, str(e)[:150]))
        elif mode == 'repeated':
            # several optimize calls on the SAME problem object (relaxed first, other solvers, ...): every return is judged against the problem as assembled
            from ..canon import Snap
            with env.quiet():
                if rng.random() < 0.5:
                    op, desc, mip = synthetic(rng)
                    case.key = env.spec_key(desc); case.sample = dict(desc); case.spec = case.sample
                else:
                    spec = gen.gen_mixed_portfolio(rng, kinds=('storage_mip', 'storage_mip', 'plant', 'orderbook', 'contract', 'storage'), grid_kw={'steps': (4, 14)}, n_assets=(1, 3), n_nodes=(1, 2))
                    for a in spec['assets']:
                        if a['type'] == 'OrderBook':
                            a['full_exec'] = True
                    case.key = env.spec_key(gen.strip_private(spec)); case.sample = gen.abbreviate(spec); case.spec = spec
                    rr = flow.run_portfolio(spec, do_optimize=False, rec=rec)
                    if not rr.ok:
                        case.reject(flow.describe_error(rr)); op = None
                    else:
                        op = rr.op; mip = gen.is_mip(spec)
                if op is not None:
                    snap0 = Snap(op)
                    calls = []
                    for _ in range(int(rng.integers(2, 4))):
                        kw = {}
                        sv = gen.pick(rng, MIP_SOLVERS_REPEATED if mip else LP_SOLVERS)
                        if sv: kw['solver'] = sv
                        if mip and rng.random() < 0.4: kw['make_soft_problem'] = True
                        calls.append(kw)
                    if mip and not any(c.get('make_soft_problem') for c in calls[:-1]) and rng.random() < 0.6:
                        calls[0]['make_soft_problem'] = True
                    case.sample = dict(case.sample, calls=calls) if isinstance(case.sample, dict) else case.sample
                    for kw in calls:
                        try:
                            op.optimize(**kw)
                        except Exception as e:
                            case.reject('optimize raised %s: %s' % (type(e).__name__, str(e)[:150])); break
        elif mode in ('synthetic', 'infeasible'):
            with env.quiet():
                op, desc, mip = synthetic(rng, infeasible=(mode == 'infeasible'))
                solver = gen.pick(rng, MIP_SOLVERS if mip else LP_SOLVERS)
                case.key = env.spec_key(desc); case.sample = dict(desc, solver=solver); case.spec = case.sample
                if desc.get('all_fixed'):
                    case.feature('all_variables_fixed:' + ('off_the_rows' if desc['all_fixed']['moved_off_the_rows'] else 'feasible'))
                soft = mip and rng.random() < 0.1
                try:
                    kw = {}
                    if solver: kw['solver'] = solver
                    if soft: kw['make_soft_problem'] = True
                    op.optimize(**kw)
                except Exception as e:
                    case.reject('optimize raised %s: %s' % (type(e).__name__, str(e)[:150]))
        else:
            spec = gen.gen_mixed_portfolio(rng, grid_kw={'steps': (4, 24)}, n_assets=(2, 5))
            gap = None
            if mode == 'split' and rng.random() < 0.2:
                # an interval in which no variable is mapped although the order book keeps its variables there (see C14)
                from .c14 import gen_gap_case
                gap = gen_gap_case(rng)
                if gap is not None:
                    spec = gap[0]
            if mode == 'portfolio_infeasible':
                # a must-run demand without any supplier at a fresh node
                spec['assets'].append({'type': 'SimpleContract', 'name': 'must_run', 'nodes': ['island'], 'min_cap': 1., 'max_cap': 2.})
            mip = gen.is_mip(spec)
            solver = gen.pick(rng, MIP_SOLVERS if mip else LP_SOLVERS)
            split = gen.pick(rng, ['d', '12h', '6h']) if (mode == 'split' and not spec['grid']['freq'].endswith('d')) else None
            if gap is not None:
                split = 'd'
            for t in gen.asset_types(spec):
                case.feature('type:' + t)
            case.key = env.spec_key(gen.strip_private(spec)); case.sample = dict(gen.abbreviate(spec), solver=solver, split=split); case.spec = spec
            r = flow.run_portfolio(spec, split=split, solver=solver, do_extract=False, rec=rec)
            if not r.ok:
                if r.stage == 'optimize' and mip and solver == 'CLARABEL' and type(r.error).__name__ == 'SolverError':
                    case.reject('LP-only solver on a MIP: ' + flow.describe_error(r))          # cvxpy refuses: no result, no claim
                elif r.stage == 'optimize':
                    # the problem was assembled; optimize must return a solution or a status, not raise
                    case.check('opt.optimize_does_not_raise', False, solver=solver, split=split, error=flow.describe_error(r))
                else:
                    case.reject(flow.describe_error(r))
            elif split and r.solved:
                # concatenation: x is the concatenation and value the sum of the recorded per-interval results
                evs = [e for e in rec.of('optimize') if e.ret is not None and not isinstance(e.ret, str)]
                case.check('split.every_interval_with_variables_is_optimised', len(evs) == sum(1 for o in r.op.ops if len(o.c) > 0), intervals=len(r.op.ops), optimised=len(evs),
                           n_x=len(np.asarray(r.res.x)), n_vars=int(sum(len(o.c) for o in r.op.ops)))
                if len(evs) == len(r.op.ops):
                    xcat = np.concatenate([np.asarray(e.ret.x, float) for e in evs]) if evs else np.zeros(0)
                    case.check('split.x_is_concatenation', xcat.shape == np.asarray(r.res.x).shape and np.array_equal(xcat, np.asarray(r.res.x, float)),
                               n=len(xcat))
                    vs = float(sum(e.ret.value for e in evs))
                    case.check('split.value_is_sum', abs(vs - float(r.res.value)) <= 1e-9 * (1 + abs(vs)), sum=vs, value=float(r.res.value))
    nontrivial = False
    for ev in rec.of('optimize'):
        before = sum(case.stats[k] for k in list(case.stats) if k.startswith('binding_'))
        mon_optimize(case, ev, time_limit=20., scaled_only=scaled, snap_override=snap0)
        after = sum(case.stats[k] for k in list(case.stats) if k.startswith('binding_'))
        if isinstance(ev.ret, str) or after > before:
            nontrivial = True
    case.event('optimize', rec.counts['optimize'])
    case.nontrivial = nontrivial


def _is_f23(v, rec):
    # solver choice 'SCIPY' on a MIP: cvxpy's SCIPY (HiGHS) interface reports 'infeasible' for feasible mixed-integer problems
    # (the same problem is solved by SCIP, by the default solver and by scipy.optimize.milp called directly)
    # ... or returns a point far below the optimum as 'optimal' (thorough tier, seed 0 case 4752: 5117 instead of 21199; SCIP and the default solver
    # find 21199 on the same problem object)
    if v.get('solver') != 'SCIPY' or (v.get('n_bool') or 0) <= 0:
        return False
    return (v.get('clause') == 'opt.failure_means_infeasible' and v.get('reference') == 'optimal') or v.get('clause') == 'opt.no_better_point'


CLASSIFIERS = {'c03_cvxpy_scipy_mip_false_infeasible': _is_f23}
