"""C03 The optimiser returns a feasible, optimal point of the assembled problem."""
import numpy as np
import pandas as pd
import scipy.sparse as sp
from .. import env, attach, gen, flow, solve
from ..mon_problem import mon_optimize

PROPERTY = 'C03'
CASES = {'quick': 420, 'thorough': 8000}
BUDGET_S = {'quick': 150, 'thorough': 1800}
SUITE_UNDER_MONITORS = True      # thorough tier: the repository's own tests are an extra workload under the passive monitors
RULE = ('case = one problem pushed through the real OptimProblem.optimize (or SplitOptimProblem.optimize) with a solver choice from '
        '{default, CLARABEL, SCIPY, SCIP}: (a) assembled from a random mixed portfolio (LP and MIP), (b) synthetic raw problem with all four row '
        'classes interleaved, duplicated mapping rows and boolean flags on variables with bounds such as [-0.3, 1.6], random costs so rows of '
        'every class bind, (c) the same made clearly infeasible (margin >= 1). Every optimize return is judged against the recorded problem '
        'and an independent HiGHS solve. Non-trivial: a success with >=1 binding row or a reported failure; distinct = hash of the problem data.')
ASSUMPTIONS = ['a variable is boolean iff its mapping rows flag it (flags are generated consistently over duplicated rows)',
               'ortools is not installed: that interface is not exercised', 'results flagged inaccurate make no claim (counted)',
               'first-order solvers OSQP/SCS are excluded (no sharp solver tolerance)',
               'tolerances: feasibility 1e-6 scaled, value 1e-5 (MIP 2e-4) relative']
MIN_NONVACUOUS = {'quick': {'opt.rows_U': 100, 'opt.rows_L': 80, 'opt.rows_S': 60, 'opt.rows_N': 100, 'opt.booleans': 60,
                            'opt.no_better_point': 200, 'opt.failure_means_infeasible': 25, 'opt.value_is_minus_cx': 200},
                  'thorough': {'opt.rows_U': 2000, 'opt.rows_L': 1500, 'opt.rows_S': 1000, 'opt.rows_N': 2000, 'opt.booleans': 1000,
                               'opt.no_better_point': 4000, 'opt.failure_means_infeasible': 500}}
LP_SOLVERS = [None, None, 'CLARABEL', 'SCIPY', 'SCIP']
MIP_SOLVERS = [None, None, 'SCIP', 'SCIPY']


def synthetic(rng, infeasible=False):
    from eaopack.optimization import OptimProblem
    n = int(rng.integers(3, 13)); m = int(rng.integers(2, 11))
    mip = rng.random() < 0.5
    l = np.round(rng.uniform(-5, 0, n), 1); u = np.round(l + rng.uniform(0.5, 8, n), 1)
    isb = np.zeros(n, bool)
    if mip:
        k = int(rng.integers(1, max(2, n // 2) + 1))
        isb[rng.permutation(n)[:k]] = True
        for j in np.where(isb)[0]:
            l[j], u[j] = [(0., 1.), (-0.3, 1.6), (0., 1.), (-0.3, 1.), (0., 2.5), (1., 1.), (0., 0.)][int(rng.integers(7))]
    x0 = np.round(rng.uniform(l, u), 2)
    for j in np.where(isb)[0]:
        cand = [v for v in (0., 1.) if l[j] <= v <= u[j]]
        x0[j] = cand[int(rng.integers(len(cand)))]
    A = sp.random(m, n, density=0.5, random_state=int(rng.integers(1 << 30)), data_rvs=lambda k: np.round(rng.uniform(-3, 3, k), 1)).tolil()
    for i in range(m):
        if A[i].nnz == 0:
            A[i, int(rng.integers(n))] = 1.
    ct = ''.join(gen.pick(rng, list('UULLSN')) for _ in range(m))
    ax = A @ x0
    b = np.zeros(m)
    for i, t in enumerate(ct):
        slack = float(np.round(rng.choice([0., 0., 0.5, 2.]), 2))
        b[i] = ax[i] + slack if t == 'U' else (ax[i] - slack if t == 'L' else ax[i])
    if infeasible:
        a = np.round(rng.uniform(-2, 2, n), 1); a[a == 0] = 1.
        mx = float(np.sum(np.where(a > 0, a * u, a * l)))
        A = sp.vstack([A, sp.csr_matrix(a.reshape(1, -1))]).tolil()
        b = np.append(b, mx + 1. + rng.uniform(0, 3)); ct += 'L'
    c = np.round(rng.normal(0, 3, n), 1)
    # mapping with duplicated rows (several rows per variable), flags consistent per variable
    rows = []
    for j in range(n):
        for r in range(int(rng.choice([1, 1, 2, 3]))):
            rows.append((j, 'a%d' % (j % 3), 'n%d' % r, 'd' if r else 'd', j % 4, bool(isb[j])))
    order = rng.permutation(len(rows)) if rng.random() < 0.5 else np.arange(len(rows))
    rows = [rows[int(i)] for i in order]
    mp = pd.DataFrame(rows, columns=['idx', 'asset', 'node', 'type', 'time_step', 'bool']).set_index('idx')
    mp.index.name = None
    if not mip and rng.random() < 0.5:
        mp = mp.drop(columns=['bool'])
    op = OptimProblem(c=c, l=l.astype(float), u=u.astype(float), A=A, b=b, cType=ct, mapping=mp)
    desc = {'c': c.tolist(), 'l': l.tolist(), 'u': u.tolist(), 'A': np.asarray(A.todense()).round(3).tolist(), 'b': np.round(b, 4).tolist(),
            'cType': ct, 'bool': np.where(isb)[0].tolist(), 'map_index': [int(i) for i in mp.index]}
    return op, desc, mip


def run_case(rng, tier, case):
    mode = gen.pick(rng, ['portfolio', 'portfolio', 'synthetic', 'synthetic', 'synthetic', 'infeasible', 'portfolio_infeasible', 'split'])
    case.feature('mode:' + mode)
    with attach.recording() as rec:
        if mode in ('synthetic', 'infeasible'):
            with env.quiet():
                op, desc, mip = synthetic(rng, infeasible=(mode == 'infeasible'))
                solver = gen.pick(rng, MIP_SOLVERS if mip else LP_SOLVERS)
                case.key = env.spec_key(desc); case.sample = dict(desc, solver=solver); case.spec = case.sample
                soft = mip and rng.random() < 0.1
                try:
                    kw = {}
                    if solver: kw['solver'] = solver
                    if soft: kw['make_soft_problem'] = True
                    op.optimize(**kw)
                except Exception as e:
                    case.reject('optimize raised %s: %s' % (type(e).__name__, str(e)[:150]))
        else:
            spec = gen.gen_mixed_portfolio(rng, grid_kw={'steps': (4, 24)}, n_assets=(2, 5))
            if mode == 'portfolio_infeasible':
                # a must-run demand without any supplier at a fresh node
                spec['assets'].append({'type': 'SimpleContract', 'name': 'must_run', 'nodes': ['island'], 'min_cap': 1., 'max_cap': 2.})
            mip = gen.is_mip(spec)
            solver = gen.pick(rng, MIP_SOLVERS if mip else LP_SOLVERS)
            split = gen.pick(rng, ['d', '12h', '6h']) if (mode == 'split' and not spec['grid']['freq'].endswith('d')) else None
            for t in gen.asset_types(spec):
                case.feature('type:' + t)
            case.key = env.spec_key(gen.strip_private(spec)); case.sample = dict(gen.abbreviate(spec), solver=solver, split=split); case.spec = spec
            r = flow.run_portfolio(spec, split=split, solver=solver, do_extract=False, rec=rec)
            if not r.ok:
                case.reject(flow.describe_error(r))
            elif split and r.solved:
                # concatenation: x is the concatenation and value the sum of the recorded per-interval results
                evs = [e for e in rec.of('optimize') if e.ret is not None and not isinstance(e.ret, str)]
                if len(evs) == len(r.op.ops):
                    xcat = np.concatenate([np.asarray(e.ret.x, float) for e in evs]) if evs else np.zeros(0)
                    case.check('split.x_is_concatenation', xcat.shape == np.asarray(r.res.x).shape and np.array_equal(xcat, np.asarray(r.res.x, float)),
                               n=len(xcat))
                    vs = float(sum(e.ret.value for e in evs))
                    case.check('split.value_is_sum', abs(vs - float(r.res.value)) <= 1e-9 * (1 + abs(vs)), sum=vs, value=float(r.res.value))
    nontrivial = False
    for ev in rec.of('optimize'):
        before = sum(case.stats[k] for k in list(case.stats) if k.startswith('binding_'))
        mon_optimize(case, ev, time_limit=20.)
        after = sum(case.stats[k] for k in list(case.stats) if k.startswith('binding_'))
        if isinstance(ev.ret, str) or after > before:
            nontrivial = True
    case.event('optimize', rec.counts['optimize'])
    case.nontrivial = nontrivial


def _is_f23(v, rec):
    # solver choice 'SCIPY' on a MIP: cvxpy's SCIPY (HiGHS) interface reports 'infeasible' for feasible mixed-integer problems
    # (the same problem is solved by SCIP, by the default solver and by scipy.optimize.milp called directly)
    return (v.get('clause') == 'opt.failure_means_infeasible' and v.get('solver') == 'SCIPY' and (v.get('n_bool') or 0) > 0
            and v.get('reference') == 'optimal')


CLASSIFIERS = {'c03_cvxpy_scipy_mip_false_infeasible': _is_f23}
