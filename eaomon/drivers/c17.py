"""C17 Stochastic and robust problems respect their defining bounds."""
import copy
import numpy as np
import pandas as pd
from .. import env, attach, gen, flow, solve
from ..spec import build
from ..canon import Snap

PROPERTY = 'C17'
CASES = {'quick': 216, 'thorough': 1728}
BUDGET_S = {'quick': 300, 'thorough': 2400}
RULE = ('case = an LP portfolio (storages - the interesting coupling -, contracts with takes, transports, multi-commodity, scaled assets) with 2-5 price '
        'scenarios sharing the present prices and a present/future boundary at a random grid position (also position 0 and identical scenarios); all '
        'quantities come from executions of the real code: per-scenario set-up + optimize, make_slp + optimize, create_cost_samples + '
        'optimize(target=robust). Clauses: SLP variable layout n = m + S*n_f; for every scenario the vector (common present, that scenario\'s future) '
        'is feasible in the deterministic problem; V_SLP = -(c_p.x_p + 1/(S+1) sum_s c_f^s.x_f^s); V_SLP <= mean of the per-scenario optima; V_SLP >= '
        'expected value of fixing the present to a single-scenario solution (for 2 scenarios k); identical scenarios => V_SLP = deterministic optimum; '
        'robust: worst case of the robust solution >= worst case of every single-scenario solution and <= min of the per-scenario optima. '
        'Non-trivial: scenarios differ, present and future both non-empty and a storage or take couples them; distinct = spec hashes.')
ASSUMPTIONS = ['a variable is "future" iff its first mapping row lies at or after the boundary (assets whose variables span the boundary are not generated)',
               'expected-value-of-fixed-present problems are solved with HiGHS on the real deterministic problems with the present bounds pinned by the harness',
               'value tolerance 1e-5 relative (Clarabel vs HiGHS ~1e-7)']
MIN_NONVACUOUS = {'quick': {'slp.scenario_vectors_feasible': 300, 'slp.value_decomposition': 112, 'slp.not_above_wait_and_see': 112, 'slp.not_below_fixed_present': 175,
                            'slp.identical_scenarios_equal_deterministic': 15, 'robust.worst_case_at_least_single_scenario': 250, 'robust.worst_case_at_most_min_optimum': 112},
                  'thorough': {'slp.scenario_vectors_feasible': 1500, 'slp.not_below_fixed_present': 900, 'robust.worst_case_at_least_single_scenario': 1200}}


def gen_case(rng):
    g = gen.gen_grid(rng, freqs=['h', 'h', '2h', '4h', 'd'], steps=(6, 20))
    spec = gen.gen_lp_portfolio(rng, g=g, types=('contract', 'transport', 'storage', 'storage', 'multi'), n_assets=(1, 4), n_nodes=(1, 3))
    if rng.random() < 0.4:
        # a scaled asset (cost vector path of ScaledAsset), possibly with a window of its own that differs from its base asset's
        f = gen.UNIT_F[g['unit']]
        b = gen.gen_storage(rng, g, 'sc_base', [spec['assets'][0]['nodes'][0]], f, window=False)
        if b['size'] == 0: b['size'] = 5.
        ws, we, _k = gen.gen_window(rng, g, kinds=['none', 'inside', 'inside', 'straddle_end', 'start_only'])
        spec['assets'].append({'type': 'ScaledAsset', 'name': 'sc', 'base': b, 'min_scale': 0., 'max_scale': 2., 'norm_scale': 1., 'fix_costs': gen.r2(gen.pick(rng, [0.05, 0.5]) * f), 'wacc': 0.,
                               'start': ws, 'end': we})
    f = gen.UNIT_F[g['unit']]
    if rng.random() < 0.3:
        # variables with several mapping rows at different steps: orders delivering across the stage boundary
        spec['assets'].append(gen.gen_orderbook(rng, g, 'ob', spec['assets'][0]['nodes'][0]))
    if rng.random() < 0.25 and g['freq'] in gen.COARSE_OF:
        # ... and an asset with its own coarser frequency (the boundary is in general not aligned with its intervals)
        a = gen.gen_contract(rng, g, 'co', spec['assets'][0]['nodes'][0], f, sorted(spec['prices'])[0], window=False, take=False, dict_caps=False)
        a['freq'] = gen.pick(rng, gen.COARSE_OF[g['freq']]); a['wacc'] = 0.
        spec['assets'].append(a)
    if rng.random() < 0.15 and g['freq'] in gen.PERIOD_OF and gen.equal_steps(g) and len(gen.grid_points(g)) >= 8:
        # a periodic asset without price (its joined variables act in the present and in the future; their cost does not depend on the scenario)
        per, dur = gen.pick(rng, gen.PERIOD_OF[g['freq']])
        pe = {'type': 'SimpleContract', 'name': 'pe', 'nodes': [spec['assets'][0]['nodes'][0]], 'periodicity': per, 'min_cap': -2. * f, 'max_cap': 3. * f, 'extra_costs': 0.4, 'wacc': 0.}
        if dur:
            pe['periodicity_duration'] = dur
        spec['assets'].append(pe)
    if rng.random() < 0.12:
        # a unit with on / start decisions (booleans) in both stages: the scenario copies must stay integer
        pl = gen.gen_plant(rng, g, 'pl', [spec['assets'][0]['nodes'][0]], f, sorted(spec['prices'])[0], chp=False, simple=True, fuel=False, ramp_profiles=False)
        pl['min_cap'] = max(pl['min_cap'], gen.r2(1. * f)); pl['start_costs'] = gen.pick(rng, [2., 10.]); pl['extra_costs'] = 0.5
        spec['assets'].append(pl)
    if rng.random() < 0.12:
        # a storage with mode / holding-time binaries (variables without costs appended to its cost vector)
        sm = gen.gen_storage(rng, g, 'smip', [spec['assets'][0]['nodes'][0]], f, price_key=None, window=False, mip=True, inflow=False)
        sm['start_level'] = 0.; sm['end_level'] = 0.; sm['size'] = max(sm['size'], 5.)
        spec['assets'].insert(int(rng.integers(len(spec['assets']) + 1)), sm)
    spec = gen.strip_private(spec)
    T = len(gen.grid_points(g))
    k = int(gen.pick(rng, [0] + list(range(1, T)) * 3))
    S = int(rng.integers(2, 6)) if rng.random() < 0.85 else 1          # (also a scenario set with a single member)
    identical = rng.random() < 0.12
    keys = sorted(spec['prices'])
    scen = []
    for s in range(S):
        p = {}
        alt = gen.gen_prices(rng, T, keys)
        for key in keys:
            base = np.asarray(spec['prices'][key], float)
            if identical:
                p[key] = base.tolist()
            else:
                v = base.copy(); v[k:] = np.asarray(alt[key])[k:] if rng.random() < 0.7 else base[k:] * rng.uniform(0.5, 1.6)
                p[key] = [float(x) for x in np.round(v, 3)]
        scen.append(p)
    return spec, k, scen, identical


def run_case(rng, tier, case):
    import eaopack.stoch_lin_prog as SLP
    spec, k, scen, identical = gen_case(rng)
    S = len(scen)
    pts = gen.grid_points(spec['grid']); T = len(pts)
    for t in gen.asset_types(spec):
        case.feature('type:' + t)
    case.feature('S:%d' % S, 'boundary:' + ('start' if k == 0 else 'inside'), 'identical_scenarios' if identical else 'different_scenarios')
    case.key = env.spec_key([spec, k, scen]); case.sample = dict(gen.abbreviate(spec), boundary_step=k, n_scenarios=S, identical=identical); case.spec = {'spec': spec, 'boundary': k, 'scenarios': scen}
    coupled = any(a['type'] == 'Storage' or a.get('min_take') or a.get('max_take') or a['type'] == 'ScaledAsset' for a in spec['assets'])
    allp = [spec['prices']] + scen
    with attach.recording() as rec, env.quiet():
        try:
            b = build(spec)
            P, tg = b.portfolio, b.timegrid
            det = []
            for p in allp:
                pr = {kk: np.asarray(v, float) for kk, v in p.items()}
                op = P.setup_optim_problem(pr, tg)
                res = op.optimize()
                det.append((Snap(op), res))
        except Exception as e:
            case.reject('deterministic problems: %s %s' % (type(e).__name__, str(e)[:120])); return
        if any(isinstance(r_, str) for _, r_ in det):
            case.inconc('a scenario problem is not solved'); return
        # ---------------- SLP
        try:
            pr0 = {kk: np.asarray(v, float) for kk, v in spec['prices'].items()}
            op0 = P.setup_optim_problem(pr0, tg)
            m = len(op0.c)
            mp = op0.mapping
            first = mp[~mp.index.duplicated(keep='first')]
            if len(first) != m:
                case.feature('variables_without_mapping_row')       # (orders without a step in the horizon: inert, neither present nor future)
            # a variable belongs to the future stage only if ALL its mapping rows lie in the future (a decision acting in the present is a
            # present-stage decision): earliest step of the variable >= boundary
            tmin = mp.groupby(level=0)['time_step'].min(); tmax = mp.groupby(level=0)['time_step'].max()
            # premise 'scenarios share the present prices': the cost of a coarse variable averages the prices of all its fine steps, so a coarse
            # variable must not straddle the boundary - the boundary is moved back to the start of that coarse interval (orders have fixed prices
            # and may straddle)
            co_idx = [int(i) for i in mp[mp['asset'] == 'co'].index.unique()]
            while True:
                strad = [i for i in co_idx if tmin[i] < k <= tmax[i]]
                if not strad:
                    break
                k = int(min(tmin[i] for i in strad))
            case.sample['boundary_step'] = k; case.spec['boundary'] = k
            fut = np.zeros(m, bool)
            fut[np.asarray(tmin.index, int)] = tmin.values >= k
            samples = [{kk: np.asarray(v, float) for kk, v in p.items()} for p in scen]
            start_future = pts[k]
            if k >= 1 and rng.random() < 0.3:
                # the boundary given as a date strictly between two grid points: the step that is already running belongs to the present, the
                # future starts with the next grid point (the same partition as for the boundary on that grid point)
                start_future = pts[k] - (pts[k] - pts[k - 1]) * float(gen.pick(rng, [0.5, 0.25, 0.75]))
                case.feature('boundary_between_grid_points')
            op_slp = SLP.make_slp(op0, P, tg, start_future.to_pydatetime() if rng.random() < 0.5 else start_future, samples)
            res_slp = op_slp.optimize()
        except Exception as e:
            case.check('slp.setup_works', False, error='%s: %s' % (type(e).__name__, str(e)[:160]), boundary=k, S=S); return
        case.check('slp.setup_works', True)
        # ---------------- robust
        # the robust scenario set: all price sets, or only the samples (the problem object is then set up with prices that are NOT in the set)
        rob_idx = list(range(S + 1)) if rng.random() < 0.5 else list(range(1, S + 1))
        case.feature('robust_set:' + ('with_setup_prices' if 0 in rob_idx else 'without_setup_prices'))
        try:
            cs = P.create_cost_samples([{kk: np.asarray(v, float) for kk, v in allp[j].items()} for j in rob_idx], tg)
            opr = P.setup_optim_problem(pr0, tg)
            res_rob = opr.optimize(target=gen.pick(rng, ['robust', 'robust', 'Robust']), samples=cs)
        except Exception as e:
            case.check('robust.setup_works', False, error='%s: %s' % (type(e).__name__, str(e)[:160])); res_rob = None; cs = None
    Vs = np.array([float(r_.value) for _, r_ in det])
    tol = (solve.TOL_VAL_MIP if gen.is_mip(spec) else solve.TOL_VAL) * (1 + np.abs(Vs).max())
    nf = int(fut.sum())
    differ = not identical and k < T
    lay = False
    if isinstance(res_slp, str):
        case.inconc('SLP not solved: ' + res_slp)
    else:
        x = np.asarray(res_slp.x, float)
        lay = (len(x) == m + S * nf)
        case.check('slp.layout', lay, n=len(x), m=m, S=S, n_future=nf)
        if lay:
            V = float(res_slp.value)
            # stitched vectors: scenario 0 = original positions, scenario j = appended block j
            total = float(np.dot(det[0][0].c[~fut], x[:m][~fut]))
            okf = True; worst = None
            for j in range(S + 1):
                y = x[:m].copy()
                if j > 0:
                    y[fut] = x[m + (j - 1) * nf: m + j * nf]
                r_ = solve.residuals(det[j][0], y)
                w = max(r_['bound'], r_['rows'])
                case.check('slp.scenario_vectors_feasible', w <= solve.TOL_FEAS and r_['int'] <= solve.TOL_INT, nonvacuous=nf > 0 and nf < m, scenario=j, bound=r_['bound'],
                           rows=r_['rows_by_class'], integrality=r_['int'], boundary=k)
                total += float(np.dot(det[j][0].c[fut], y[fut])) / (S + 1)
            case.check('slp.value_decomposition', abs(V + total) <= tol, nonvacuous=differ, slp_value=V, minus_expected_cost=-total, S=S)
            # cost vectors of the present part do not depend on the scenario (shared present prices)
            case.check('slp.not_above_wait_and_see', V <= Vs.mean() + tol, nonvacuous=differ and coupled, slp=V, mean_of_scenario_optima=float(Vs.mean()), boundary=k, S=S)
            if identical:
                case.check('slp.identical_scenarios_equal_deterministic', abs(V - Vs[0]) <= tol, slp=V, deterministic=float(Vs[0]))
            # expected value of fixing the present to the solution of scenario kk
            for kk in list(rng.permutation(S + 1)[:2]):
                xk = np.asarray(det[int(kk)][1].x, float)
                vals = []
                for j in range(S + 1):
                    sn = det[j][0]
                    l2 = sn.l.copy(); u2 = sn.u.copy()
                    l2[~fut] = np.minimum(xk[~fut], sn.u[~fut]); u2[~fut] = np.maximum(np.minimum(xk[~fut], sn.u[~fut]), sn.l[~fut]); l2[~fut] = u2[~fut]
                    s_ = solve.solve_op(sn, extra_l=l2, extra_u=u2)
                    if s_['status'] != 'optimal':
                        vals = None; break
                    vals.append(s_['value'])
                if vals is None:
                    case.event('fixed_present_infeasible_within_tolerance'); continue
                eev = float(np.mean(vals))
                case.check('slp.not_below_fixed_present', V >= eev - tol, nonvacuous=differ and nf > 0 and nf < m, slp=V, expected_value_fixed_present=eev, fixed_to_scenario=int(kk), boundary=k)
    if not isinstance(res_slp, str) and 0 < k < T and lay and tier is not None:
        # the same lower bound with every quantity from real executions: the present fixed through EAO's own fix_time_window
        # (window = all steps before the boundary) to the solution of one scenario, all scenarios re-optimised by EAO
      for kk in [int(q) for q in rng.permutation(S + 1)[:2]]:
        xk = np.asarray(det[kk][1].x, float)
        vals = []; kept = True; worst_dev = 0.
        try:
            with attach.paused(), env.quiet():
                for j in range(S + 1):
                    prj = {q: np.asarray(v, float) for q, v in allp[j].items()}
                    fwI = np.arange(T) < k
                    if k >= 1 and rng.random() < 0.5:
                        # the present given as a date: the last present grid point (all steps up to and including it are fixed) - zone-aware grids: the
                        # same instant quoted in the grid's zone or in another one
                        dpt = pd.Timestamp(tg.timepoints[k - 1])
                        if dpt.tzinfo is not None and rng.random() < 0.6:
                            dpt = dpt.tz_convert(gen.pick(rng, ['UTC', 'Asia/Kolkata', 'America/New_York']))
                        fwI = dpt if rng.random() < 0.5 else dpt.to_pydatetime()
                        case.feature('present_fixed_by_date')
                    opj = P.setup_optim_problem(prj, tg, fix_time_window={'I': fwI, 'x': xk.copy()})
                    rj = opj.optimize()
                    if isinstance(rj, str):
                        vals = None; break
                    vals.append(float(rj.value))
                    pres = ~fut; pres[np.setdiff1d(np.arange(m), np.asarray(tmin.index, int))] = False       # (variables without mapping row act nowhere)
                    dv = float(max(np.max(np.abs(np.asarray(opj.l, float)[pres] - xk[pres]), initial=0.), np.max(np.abs(np.asarray(opj.u, float)[pres] - xk[pres]), initial=0.)))
                    worst_dev = max(worst_dev, dv)
        except Exception as e:
            case.check('slp.fixed_present_via_fix_time_window_works', False, error='%s: %s' % (type(e).__name__, str(e)[:160])); vals = None
        if vals is not None:
            eev2 = float(np.mean(vals))
            # the present-stage decisions (every variable acting before the boundary, incl. size variables) are those of the fixed solution in every scenario
            # (judged on the bounds of the re-built problems: solver accuracy plays no role)
            case.check('slp.fixed_present_is_common_to_all_scenarios', worst_dev <= 1e-9 * (1 + np.abs(xk).max()), nonvacuous=0 < nf < m, worst_bound_deviation=worst_dev,
                       fixed_to_scenario=kk, boundary=k)
            case.check('slp.not_below_fixed_present_via_fix_time_window', float(res_slp.value) >= eev2 - tol, nonvacuous=differ and 0 < nf < m, slp=float(res_slp.value),
                       expected_value_fixed_present=eev2, fixed_to_scenario=kk, boundary=k)
        else:
            case.event('fixed_present_infeasible_or_failed')
    if res_rob is not None:
        if isinstance(res_rob, str):
            case.inconc('robust not solved: ' + res_rob)
        else:
            xr = np.asarray(res_rob.x, float)
            C = np.array([np.asarray(c, float) for c in cs])
            ok_c = all(np.array_equal(C[i], det[j][0].c) for i, j in enumerate(rob_idx))
            case.check('robust.cost_samples_are_scenario_costs', ok_c, S=S)
            def worst_case(y):
                return float(np.min(-C @ y))
            wr = worst_case(xr)
            r_ = solve.residuals(det[0][0], xr)
            case.check('robust.solution_feasible', max(r_['bound'], r_['rows']) <= solve.TOL_FEAS, bound=r_['bound'], rows=r_['rows_by_class'])
            for j in rob_idx:
                ws = worst_case(np.asarray(det[j][1].x, float))
                case.check('robust.worst_case_at_least_single_scenario', wr >= ws - tol, nonvacuous=differ, robust_worst_case=wr, scenario=j, scenario_solution_worst_case=ws,
                           set_contains_setup_prices=(0 in rob_idx))
            vmin = float(min(Vs[j] for j in rob_idx))
            case.check('robust.worst_case_at_most_min_optimum', wr <= vmin + tol, nonvacuous=differ, robust_worst_case=wr, min_scenario_optimum=vmin)
    case.event('make_slp', rec.counts['make_slp']); case.event('optimize', rec.counts['optimize'])
    case.nontrivial = bool(differ and 0 < nf < m and coupled)
