"""C18 Reported nodal prices are marginal values of the optimum."""
import copy
import numpy as np
import pandas as pd
from .. import env, attach, gen, flow, solve
from ..canon import Snap, nodal_row_index

PROPERTY = 'C18'
CASES = {'quick': 180, 'thorough': 1440}
BUDGET_S = {'quick': 300, 'thorough': 2400}
RULE = ('case = a random LP portfolio (contracts with spread and takes, transports with efficiency, storages, multi-commodity, coarse assets, '
        'structured wrappers with internal nodes, 1-3 nodes) solved unsplit or split through the real code; nodal prices are read from '
        'extract_output()["prices"]. For sampled (node, step) pairs and injections d in {+-1e-3, +-0.1, +-1} the nodal right-hand side of that '
        '(node, step) is set to -d on a copy of the problem and the real optimize is run again; oracle: V(d) <= V(0) + price*d + tol '
        '(supergradient inequality), an infeasible perturbed problem satisfies it vacuously. Non-trivial: >=4 non-vacuous perturbations with '
        'price != 0; distinct = spec hashes.')
ASSUMPTIONS = ['tolerance 2e-5*(1+|V|) + 1e-6*|price*d| (Clarabel duals agree with HiGHS to ~1e-7 relative)', 'results flagged inaccurate make no claim',
               'the row of a (node, step) is located via map_nodal_restr (its coefficients are cross-checked against the mapping by C07)']
MIN_NONVACUOUS = {'quick': {'price.supergradient': 750, 'price.reported_for_every_nodal_row': 100},
                  'thorough': {'price.supergradient': 6000}}
KINDS = ('contract', 'contract', 'transport', 'transport', 'storage', 'storage', 'multi', 'coarse', 'structured', 'structured', 'orderbook', 'periodic')
DS = [1e-3, -1e-3, 0.1, -0.1, 1., -1.]


def run_case(rng, tier, case):
    want_split = rng.random() < 0.35
    gkw = {'steps': (4, 20)} if not want_split else {'steps': (16, 44), 'freqs': ['h', 'h', '2h', '30min'], 'hour_offsets': (0, 6, 18, 3)}
    base = gen.gen_mixed_portfolio(rng, kinds=KINDS, grid_kw=gkw, n_assets=(2, 5), n_nodes=(1, 3), mip_ok=False)
    spec = gen.strip_private(base)
    for a in spec['assets']:
        if a['type'] == 'OrderBook':
            a['full_exec'] = False
    mk = [a for a in spec['assets'] if a['type'] == 'SimpleContract' and a['name'].startswith('mkt') and isinstance(a.get('max_cap'), float) and a['max_cap'] > 0
          and not a.get('start') and not a.get('end')]
    if mk and rng.random() < 0.3:
        # a load (or a surplus) behind a lossy link: its nodal price is the market price divided (multiplied) by the efficiency and so lies
        # OUTSIDE the range of all given prices on many steps
        m0 = mk[int(rng.integers(len(mk)))]
        eff = float(gen.pick(rng, [0.5, 0.8, 0.25]))
        q = round(0.05 * m0['max_cap'], 6)
        if rng.random() < 0.6:
            spec['assets'] += [{'type': 'Transport', 'name': 'amp_link', 'nodes': [m0['nodes'][0], 'amp'], 'min_cap': 0.0, 'max_cap': m0['max_cap'], 'efficiency': eff},
                               {'type': 'SimpleContract', 'name': 'amp_load', 'nodes': ['amp'], 'min_cap': -q, 'max_cap': -q}]
            case.feature('load_behind_lossy_link')
        else:
            spec['assets'] += [{'type': 'Transport', 'name': 'amp_link', 'nodes': ['amp', m0['nodes'][0]], 'min_cap': 0.0, 'max_cap': m0['max_cap'], 'efficiency': eff},
                               {'type': 'SimpleContract', 'name': 'amp_src', 'nodes': ['amp'], 'min_cap': q, 'max_cap': q}]
            case.feature('surplus_behind_lossy_link')
    split = gen.pick(rng, ['d', '12h', '6h', '8h']) if want_split else None
    skip = None
    if not split and rng.random() < 0.2:
        # an external system that is not balanced inside the portfolio (documented argument skip_nodes): an import link with time-dependent costs
        # from a node 'ext' that is listed FIRST / in the middle / last in the portfolio's node order
        f_ = gen.UNIT_F[spec['grid']['unit']]
        tgt = sorted({n for a in spec['assets'] if a['type'] != 'StructuredAsset' for n in (a.get('nodes') or [])})[0]
        imp = {'type': 'Transport', 'name': 'ext_import', 'nodes': ['ext', tgt], 'min_cap': 0., 'max_cap': 3. * f_, 'efficiency': gen.pick(rng, [1., 0.9]),
               'costs_time_series': sorted(spec['prices'])[0], 'costs_const': 0.5}
        pos_ = gen.pick(rng, [0, 0, len(spec['assets']) // 2, len(spec['assets'])])
        spec['assets'].insert(pos_, imp)
        skip = ['ext']
        case.feature('skip_nodes:' + ('first' if pos_ == 0 else 'later'))
    for t in gen.asset_types(spec):
        case.feature('type:' + t)
    case.feature('split' if split else 'monolithic')
    case.key = env.spec_key([spec, split]); case.sample = dict(gen.abbreviate(base), split=split); case.spec = {'spec': spec, 'split': split}
    r = flow.run_portfolio(spec, split=split, skip_nodes=skip)
    if not r.ok:
        if r.stage == 'extract' and r.res is not None and not isinstance(r.res, str):
            case.check('price.extraction_works', False, split=split, error=flow.describe_error(r)); return
        case.reject(flow.describe_error(r)); return
    if not r.solved:
        case.inconc('not solved: ' + str(r.res)); return
    case.check('price.extraction_works', True, split=split)
    prices = r.out.get('prices')
    V0 = float(r.res.value)
    ops = r.op.ops if split else [r.op]
    evs = [e for e in r.rec.of('optimize') if e.ret is not None and not isinstance(e.ret, str)]
    if len(evs) != len(ops):
        case.inconc('optimize events do not match problems'); return
    times = r.built.timegrid.timepoints
    pairs = []
    # (node, step) of every nodal row, derived independently of map_nodal_restr: the set of variables in the row must be the set of
    # dispatch variables the (concatenated, original-grid) mapping lists for exactly one (node, step)
    M = r.op.mapping
    Md = M[M['type'] == 'd']
    by_ns = {}
    for idx, n_, t_ in zip(Md.index, Md['node'], Md['time_step']):
        if skip and str(n_) in skip:
            continue          # (no balance - and no price - for a skipped node)
        by_ns.setdefault((str(n_), int(t_)), set()).add(int(idx))
    inv = {}
    for key, vs in by_ns.items():
        inv.setdefault(frozenset(vs), []).append(key)
    off = 0
    mism = []
    for k, (op, ev) in enumerate(zip(ops, evs)):
        sn = Snap(op)
        rows = nodal_row_index(sn)
        A = sn.A.tocsr()
        for j, (t, n) in enumerate(op.map_nodal_restr):
            vs = frozenset(int(c) + off for c in A.getrow(rows[j]).indices)
            cand = inv.get(vs, [])
            if len(cand) == 1:
                n_i, t_i = cand[0]
                if (n_i, t_i) != (str(n), int(t)):
                    mism.append({'interval': k, 'row': j, 'map_nodal_restr': [int(t), str(n)], 'from_mapping': [t_i, n_i]})
                pairs.append((k, rows[j], t_i, n_i))
            else:
                case.event('nodal_row_not_uniquely_identified')
        off += len(op.c)
    case.check('price.nodal_row_labelled_with_its_node_and_step', not mism, nonvacuous=len(pairs) > 0, first=mism[:3], split=split)
    # a second extraction from the same objects must report the same prices
    import eaopack.io as eio
    with env.quiet():
        out2 = eio.extract_output(r.built.portfolio, r.op, r.res, r.built.prices)
    p1 = r.out.get('prices'); p2 = out2.get('prices')
    same = (p1 is None and p2 is None) or (p1 is not None and p2 is not None and list(p1.columns) == list(p2.columns) and
                                            np.allclose(p1.values.astype(float), p2.values.astype(float), rtol=0, atol=0, equal_nan=True))
    case.check('price.repeated_extraction_same_prices', bool(same), nonvacuous=p1 is not None and len(p1.columns) > 0)
    if rng.random() < 0.5:
        r.out = out2
        case.feature('prices_from_second_extraction')
    # the price table is indexed by the grid's own time points (one row per step, unambiguous)
    if prices is not None and len(prices.columns) > 0:
        idx_ok = len(prices.index) == len(times) and not prices.index.has_duplicates and all(pd.Timestamp(a_) == pd.Timestamp(b_) for a_, b_ in zip(prices.index, times))
        case.check('price.table_indexed_by_grid_points', bool(idx_ok), n_rows=len(prices.index), T=len(times), duplicates=bool(prices.index.has_duplicates),
                   first=[str(x) for x in prices.index[:2]], grid_first=[str(x) for x in times[:2]])
        if not idx_ok:
            return
    if split and rng.random() < 0.5:
        # the split problem optimised again on the same object (another run after a change of a right-hand side, a check of an earlier result): the
        # value of that run is the optimum again - not the earlier run's value carried along
        try:
            with env.quiet(), attach.paused():
                res_again = r.op.optimize()
            if not isinstance(res_again, str):
                case.check('price.split_reoptimised_value_same', abs(float(res_again.value) - V0) <= 2e-5 * (1 + abs(V0)) and len(np.asarray(res_again.x)) == len(np.asarray(r.res.x)),
                           first=V0, second=float(res_again.value), n_first=len(np.asarray(r.res.x)), n_second=len(np.asarray(res_again.x)))
        except Exception as e:
            case.check('price.split_reoptimised_value_same', False, error='%s: %s' % (type(e).__name__, str(e)[:160]))
    # every nodal row has a reported price
    col_ok = prices is not None and len(prices.columns) > 0
    missing = []
    if col_ok:
        for (k, row, t, n) in pairs:
            c = 'nodal price: ' + n
            if c not in prices.columns or pd.isnull(prices.loc[times[t], c]):
                missing.append([n, t])
    case.check('price.reported_for_every_nodal_row', col_ok and not missing, nonvacuous=len(pairs) > 0, missing=missing[:5])
    if skip and col_ok:
        case.check('price.none_reported_for_skipped_nodes', not any(('nodal price: ' + n_) in prices.columns for n_ in skip), columns=list(map(str, prices.columns))[:6], skipped=skip)
    if not col_ok:
        return
    nsamp = 8 if tier == 'quick' else 14
    sel = [pairs[int(i)] for i in rng.permutation(len(pairs))[:nsamp]]
    # plus the pairs with the highest and the lowest reported price (where a price that was capped, floored or mis-scaled is most likely to sit)
    def _p(q):
        c_ = 'nodal price: ' + q[3]
        v_ = prices.loc[times[q[2]], c_] if c_ in prices.columns else np.nan
        return float(v_) if not pd.isnull(v_) else np.nan
    pv = np.array([_p(q) for q in pairs], float)
    if np.isfinite(pv).any():
        for q in (pairs[int(np.nanargmax(pv))], pairs[int(np.nanargmin(pv))]):
            if q not in sel:
                sel.append(q)
    # plus, per problem, the nodal rows where an independent LP solver sees the largest and the smallest marginal value (guides the sampling
    # only: the verdict below rests on re-optimisation with the real code, never on these marginals)
    extra = 0
    for k, op in enumerate(ops):
        mg = solve.lp_row_marginals(op)
        if mg is None:
            case.event('independent_marginals_unavailable'); continue
        mine = [q for q in pairs if q[0] == k and np.isfinite(mg[q[1]])]
        if not mine:
            continue
        vals = np.array([mg[q[1]] for q in mine])
        for q in (mine[int(np.argmax(vals))], mine[int(np.argmin(vals))]):
            if q not in sel and extra < 4:
                sel.append(q); extra += 1
    case.stats['pairs_from_independent_marginals'] += extra
    import eaopack.optimization as EO
    nonvac = supergradients(rng, tier, case, spec, split, ops, [float(e.ret.value) for e in evs], V0, prices, times, sel, 'price.supergradient')
    if not split and rng.random() < 0.4:
        # price scenarios on the SAME problem object (documented use of costs_only): new cost vector, optimise again, extract again - the prices
        # reported with the second result are marginal values of the second optimum
        keys_ = sorted(spec['prices'])
        pr_b = {k_: np.asarray(v_, float) for k_, v_ in gen.gen_prices(rng, r.built.timegrid.T, keys_).items()}
        for k_ in keys_:
            if k_.startswith('cap'):
                pr_b[k_] = r.built.prices[k_]
        try:
            with env.quiet():
                kw_ = {'skip_nodes': skip} if skip else {}
                c_b = r.built.portfolio.setup_optim_problem(pr_b, r.built.timegrid, costs_only=True, **kw_)
                with attach.paused():
                    c_full_b = np.asarray(r.built.portfolio.setup_optim_problem(pr_b, r.built.timegrid, **kw_).c, float)
                # (the scenario's cost vector is the cost vector of the scenario's problem: otherwise prices and value below belong to another problem)
                case.check('price.scenario_cost_vector_is_problem_cost_vector', np.asarray(c_b).shape == c_full_b.shape and bool(np.allclose(np.asarray(c_b, float), c_full_b, rtol=1e-12, atol=0.)),
                           worst=float(np.max(np.abs(np.asarray(c_b, float) - c_full_b))) if np.asarray(c_b).shape == c_full_b.shape and len(c_full_b) else None)
                r.op.c = np.asarray(c_b, float)
                res_b = r.op.optimize()
                out_b = None if isinstance(res_b, str) else eio.extract_output(r.built.portfolio, r.op, res_b, pr_b)
        except Exception as e:
            case.check('price.second_scenario_works', False, error='%s: %s' % (type(e).__name__, str(e)[:160])); out_b = None; res_b = 'failed'
        if out_b is not None and out_b.get('prices') is not None and len(out_b['prices'].columns):
            case.feature('second_scenario_on_same_problem')
            sel_b = [pairs[int(i)] for i in rng.permutation(len(pairs))[:5]]
            supergradients(rng, tier, case, spec, split, [r.op], [float(res_b.value)], float(res_b.value), out_b['prices'], times, sel_b, 'price.supergradient_second_scenario')
    case.nontrivial = nonvac >= 4


def supergradients(rng, tier, case, spec, split, ops, interval_values, V0, prices, times, sel, clause):
    import eaopack.optimization as EO
    nonvac = 0
    for (k, row, t, n) in sel:
        c = 'nodal price: ' + n
        if c not in prices.columns or pd.isnull(prices.loc[times[t], c]):
            continue
        p = float(prices.loc[times[t], c])
        for d in (DS if tier == 'thorough' else [DS[int(i)] for i in rng.permutation(len(DS))[:3]]):
            op = ops[k]
            b2 = np.array(op.b, dtype=float).copy(); b2[row] = -d
            with env.quiet(), attach.paused():
                op2 = EO.OptimProblem(c=op.c.copy(), l=op.l.copy(), u=op.u.copy(), A=op.A.copy(), b=b2, cType=op.cType, mapping=op.mapping)
                res2 = op2.optimize()
            if isinstance(res2, str):
                if res2 == 'inaccurate':
                    case.event('perturbed_inaccurate')
                else:
                    case.check(clause, True, nonvacuous=False)     # infeasible: inequality holds trivially
                continue
            Vd = V0 - interval_values[k] + float(res2.value)
            tol = 2e-5 * (1 + abs(V0)) + 1e-6 * abs(p * d)
            ok = Vd <= V0 + p * d + tol
            if abs(p) > 1e-9:
                nonvac += 1
            case.check(clause, ok, nonvacuous=abs(p) > 1e-9, node=n, step=t, d=d, price=p, V0=V0, Vd=Vd, bound=V0 + p * d, excess=Vd - (V0 + p * d),
                       split=split, structured=any('Structured' in x for x in gen.asset_types(spec)))
    return nonvac
