"""C18 Reported nodal prices are marginal values of the optimum."""
import copy
import numpy as np
import pandas as pd
from .. import env, attach, gen, flow, solve
from ..canon import Snap, nodal_row_index

PROPERTY = 'C18'
CASES = {'quick': 60, 'thorough': 700}
BUDGET_S = {'quick': 300, 'thorough': 2400}
RULE = ('case = a random LP portfolio (contracts with spread and takes, transports with efficiency, storages, multi-commodity, coarse assets, '
        'structured wrappers with internal nodes, 1-3 nodes) solved unsplit or split through the real code; nodal prices are read from '
        'extract_output()["prices"]. For sampled (node, step) pairs and injections d in {+-1e-3, +-0.1, +-1} the nodal right-hand side of that '
        '(node, step) is set to -d on a copy of the problem and the real optimize is run again; oracle: V(d) <= V(0) + price*d + tol '
        '(supergradient inequality), an infeasible perturbed problem satisfies it vacuously. Non-trivial: >=4 non-vacuous perturbations with '
        'price != 0; distinct = spec hashes.')
ASSUMPTIONS = ['tolerance 2e-5*(1+|V|) + 1e-6*|price*d| (Clarabel duals agree with HiGHS to ~1e-7 relative)', 'results flagged inaccurate make no claim',
               'the row of a (node, step) is located via map_nodal_restr (its coefficients are cross-checked against the mapping by C07)']
MIN_NONVACUOUS = {'quick': {'price.supergradient': 300, 'price.reported_for_every_nodal_row': 40},
                  'thorough': {'price.supergradient': 6000}}
KINDS = ('contract', 'contract', 'transport', 'transport', 'storage', 'storage', 'multi', 'coarse', 'structured', 'structured', 'orderbook', 'periodic')
DS = [1e-3, -1e-3, 0.1, -0.1, 1., -1.]


def run_case(rng, tier, case):
    base = gen.gen_mixed_portfolio(rng, kinds=KINDS, grid_kw={'steps': (4, 20)}, n_assets=(2, 5), n_nodes=(1, 3), mip_ok=False)
    spec = gen.strip_private(base)
    for a in spec['assets']:
        if a['type'] == 'OrderBook':
            a['full_exec'] = False
    split = gen.pick(rng, ['d', '12h', '6h']) if (rng.random() < 0.3 and not spec['grid']['freq'].endswith('d')) else None
    for t in gen.asset_types(spec):
        case.feature('type:' + t)
    case.feature('split' if split else 'monolithic')
    case.key = env.spec_key([spec, split]); case.sample = dict(gen.abbreviate(base), split=split); case.spec = {'spec': spec, 'split': split}
    r = flow.run_portfolio(spec, split=split)
    if not r.ok:
        case.reject(flow.describe_error(r)); return
    if not r.solved:
        case.inconc('not solved: ' + str(r.res)); return
    prices = r.out.get('prices')
    V0 = float(r.res.value)
    ops = r.op.ops if split else [r.op]
    evs = [e for e in r.rec.of('optimize') if e.ret is not None and not isinstance(e.ret, str)]
    if len(evs) != len(ops):
        case.inconc('optimize events do not match problems'); return
    times = r.built.timegrid.timepoints
    pairs = []
    for k, (op, ev) in enumerate(zip(ops, evs)):
        rows = nodal_row_index(Snap(op))
        for j, (t, n) in enumerate(op.map_nodal_restr):
            pairs.append((k, rows[j], int(t), str(n)))
    # every nodal row has a reported price
    col_ok = prices is not None and len(prices.columns) > 0
    missing = []
    if col_ok:
        for (k, row, t, n) in pairs:
            c = 'nodal price: ' + n
            if c not in prices.columns or pd.isnull(prices.loc[times[t], c]):
                missing.append([n, t])
    case.check('price.reported_for_every_nodal_row', col_ok and not missing, nonvacuous=len(pairs) > 0, missing=missing[:5])
    if not col_ok:
        return
    nsamp = 8 if tier == 'quick' else 14
    sel = [pairs[int(i)] for i in rng.permutation(len(pairs))[:nsamp]]
    nonvac = 0
    import eaopack.optimization as EO
    for (k, row, t, n) in sel:
        c = 'nodal price: ' + n
        if c not in prices.columns or pd.isnull(prices.loc[times[t], c]):
            continue
        p = float(prices.loc[times[t], c])
        for d in (DS if tier == 'thorough' else [DS[int(i)] for i in rng.permutation(len(DS))[:3]]):
            op = ops[k]
            b2 = np.array(op.b, dtype=float).copy(); b2[row] = -d
            with env.quiet(), attach.paused():
                op2 = EO.OptimProblem(c=op.c.copy(), l=op.l.copy(), u=op.u.copy(), A=op.A.copy(), b=b2, cType=op.cType, mapping=op.mapping)
                res2 = op2.optimize()
            if isinstance(res2, str):
                if res2 == 'inaccurate':
                    case.event('perturbed_inaccurate')
                else:
                    case.check('price.supergradient', True, nonvacuous=False)     # infeasible: inequality holds trivially
                continue
            Vd = V0 - float(evs[k].ret.value) + float(res2.value)
            tol = 2e-5 * (1 + abs(V0)) + 1e-6 * abs(p * d)
            ok = Vd <= V0 + p * d + tol
            if abs(p) > 1e-9:
                nonvac += 1
            case.check('price.supergradient', ok, nonvacuous=abs(p) > 1e-9, node=n, step=t, d=d, price=p, V0=V0, Vd=Vd, bound=V0 + p * d, excess=Vd - (V0 + p * d),
                       split=split, structured=any('Structured' in x for x in gen.asset_types(spec)))
    case.nontrivial = nonvac >= 4
