"""C07 The variable mapping is a faithful description of the assembled problem."""
import numpy as np
from .. import env, attach, gen, flow
from ..mon_problem import mon_mapping_asset, mon_mapping_portfolio, mon_internal_steps

PROPERTY = 'C07'
gen.OFFGRID = 0.12      # some asset windows start or end strictly between two grid points
CASES = {'quick': 720, 'thorough': 5760}
BUDGET_S = {'quick': 150, 'thorough': 1500}
SUITE_UNDER_MONITORS = True      # thorough tier: the repository's own tests are an extra workload under the passive monitors
RULE = ('case = one random mixed portfolio (every asset class incl. OrderBook with orders outside the horizon, periodic and coarse-frequency '
        'assets, CHP/Plant with appended booleans and fuel rows, Scaled/Structured wrappers, hostile names in a third of the cases) set up through '
        'the real Portfolio.setup_optim_problem (a third via setup_split_optim_problem); the monitor evaluates every asset-level and '
        'portfolio-level set-up return against the sub-problems the assets themselves returned during that call. '
        'Non-trivial: >=2 assets with variables and >=1 nodal row; distinct = distinct spec hashes.')
ASSUMPTIONS = ['inputs EAO rejects by a documented domain assertion are counted as rejected',
               'disp_factor NaN in an asset mapping means 1 (as filled in by the portfolio)']
MIN_NONVACUOUS = {'quick': {'portfolio.mapping_rows_point_to_own_variables': 750, 'portfolio.nodal_row_coefficients': 250,
                            'portfolio.asset_rows_embedded': 250, 'asset.index_in_range': 1250, 'asset.unmapped_inert': 25},
                  'thorough': {'portfolio.mapping_rows_point_to_own_variables': 6000, 'portfolio.nodal_row_coefficients': 2000,
                               'asset.unmapped_inert': 200}}


rename_hostile = gen.rename_hostile
_nodes = gen.spec_nodes


def run_case(rng, tier, case):
    spec = gen.gen_mixed_portfolio(rng, grid_kw={'steps': (4, 30)})
    if rng.random() < 0.35:
        spec, _ = rename_hostile(rng, spec)
        case.feature('hostile_names')
    split = None
    if rng.random() < 0.3 and not spec['grid']['freq'].endswith('d'):
        split = gen.pick(rng, ['d', '12h', '6h'])
        case.feature('split:' + split)
    for t in gen.asset_types(spec):
        case.feature('type:' + t)
    case.key = env.spec_key(gen.strip_private(spec)); case.sample = gen.abbreviate(spec); case.spec = spec
    r = flow.run_portfolio(spec, split=split, do_optimize=False)
    if not r.ok:
        msg = flow.describe_error(r)
        domain = isinstance(r.error, (AssertionError, NotImplementedError)) or 'concatenate str' in msg or 'ill-posed' in msg or type(r.error).__name__ in ('AmbiguousTimeError', 'NonExistentTimeError') \
            or r.stage == 'build'
        if domain:
            case.reject(msg)
        else:
            # the assembly itself failed on an input every asset accepted on its own terms: no faithful description of anything was produced
            case.check('portfolio.setup_works', False, error=msg, split=split)
    rec = r.rec
    n_assets_with_vars = 0
    for ev in rec.of('asset_setup'):
        if ev.snap is not None and not ev.args.get('costs_only'):
            mon_mapping_asset(case, ev)
            mon_internal_steps(case, ev)
            if len(ev.snap.c):
                n_assets_with_vars += 1
    # the mapping stays the description of the problem when the problem is used: an (ordinary or relaxed) optimize call leaves vectors, rows and every
    # mapping column - boolean flags included - as assembled
    if not split and r.ok and r.op is not None and gen.is_mip(spec) and rng.random() < 0.3:
        from ..canon import Snap, problem_diff
        before = Snap(r.op)
        try:
            with attach.paused(), env.quiet():
                r.op.optimize(make_soft_problem=True)
            d_ = problem_diff(Snap(r.op), before, rtol=0., compare_mapping=True)
            flags_same = ('bool' not in before.mapping.columns) or bool((Snap(r.op).mapping['bool'].fillna(False).astype(bool).values == before.mapping['bool'].fillna(False).astype(bool).values).all())
            case.check('problem.unchanged_by_relaxed_optimize', d_ is None and flags_same, diff=d_, boolean_flags_kept=flags_same)
        except Exception as e:
            case.event('relaxed_optimize_failed:' + type(e).__name__)
    # periodic assets: "its cost is that the asset computed for it" - a joined variable stands for the steps its mapping rows name, so it
    # carries the sum of the costs the same asset WITHOUT the option computes for these steps (one-variable-per-step forms)
    if not split and r.ok:
        from ..spec import Built, build_asset, build_timegrid
        from ..canon import Snap
        for ev in [e for e in rec.of('asset_setup') if e.snap is not None and not e.args.get('costs_only') and e.parent is not None]:
            a = [x for x in spec['assets'] if x['name'] == ev.args['name']]
            if not a or not a[0].get('periodicity') or a[0].get('freq') or len(ev.snap.c) == 0:
                continue
            a = a[0]
            mp = ev.snap.mapping
            if set(mp['var_name'].unique()) != {'disp'}:
                continue
            try:
                with attach.paused(), env.quiet():
                    a0 = {k: v for k, v in a.items() if k not in ('periodicity', 'periodicity_duration')}
                    o0 = build_asset(a0, Built(), spec['grid'].get('tz'))
                    s0 = Snap(o0.setup_optim_problem({k: np.asarray(v, float) for k, v in spec['prices'].items()}, build_timegrid(spec['grid'])))
                m0 = s0.mapping
                if set(m0['var_name'].unique()) != {'disp'}:
                    continue
                c_step = {int(t): float(s0.c[int(i)]) for i, t in zip(m0.index, m0['time_step'])}
                ok = True; bad = None
                for i in sorted(set(int(q) for q in mp.index)):
                    steps = sorted(set(int(t) for t in mp.loc[[i], 'time_step'].values))
                    want = sum(c_step[t] for t in steps)
                    if abs(float(ev.snap.c[i]) - want) > 1e-9 * (1 + abs(want)):
                        ok = False; bad = {'var': i, 'steps': steps[:8], 'cost': float(ev.snap.c[i]), 'sum_of_step_costs': want}; break
                case.check('asset.periodic_cost_is_sum_of_joined_steps', ok, asset=a['name'], cls=a['type'], periodicity=a['periodicity'], bad=bad)
            except Exception as e:
                case.event('periodic_probe_failed:' + type(e).__name__)
    # a problem set up with a fixed time window is a problem like any other: its bounds are ordered, and the window's variables carry the given values
    # (documented: they are fixed to them) - also when the values come from a problem with other bounds (re-planning after a capacity change)
    if not split and r.ok and r.op is not None and len(r.op.c) and rng.random() < 0.2:
        from ..canon import Snap
        s_un = Snap(r.op)
        T_ = r.built.timegrid.T
        kq = int(rng.integers(1, T_ + 1))
        xg = np.where(np.isfinite(s_un.u), s_un.u, 0.) + np.where(rng.random(len(s_un.u)) < 0.5, gen.pick(rng, [1., 0.5]), 0.)      # (partly beyond the present upper bounds)
        rq = flow.run_portfolio(spec, built=r.built, do_optimize=False, fix_time_window={'I': np.arange(T_) < kq, 'x': xg.copy()})
        if not rq.ok:
            case.check('fixed_window.setup_works', False, error=flow.describe_error(rq))
        else:
            sq = Snap(rq.op)
            mq = sq.mapping
            inw = np.zeros(len(sq.c), bool)
            if len(mq):
                inw[np.unique(np.asarray(mq.index)[(mq['time_step'] < kq).values]).astype(int)] = True
            case.check('fixed_window.l_le_u', bool(np.all(sq.l <= sq.u + 1e-12)), n_bad=int(np.sum(sq.l > sq.u + 1e-12)), steps_fixed=kq)
            okp = bool(np.all(np.abs(sq.l[inw] - xg[inw]) <= 1e-9 * (1 + np.abs(xg[inw]))) and np.all(np.abs(sq.u[inw] - xg[inw]) <= 1e-9 * (1 + np.abs(xg[inw])))) if len(sq.c) == len(xg) else False
            case.check('fixed_window.variables_carry_given_values', okp, nonvacuous=bool(inw.any()), steps_fixed=kq, n_window_vars=int(inw.sum()))
    # the two-stage stochastic program built from the problem (make_slp) is a problem with a mapping like any other: every row names an existing variable,
    # the rows of one variable agree on asset and variable name, and every scenario copy of a future variable carries exactly the rows of its original
    # (the original of a copy is identified through the restriction matrix - same column in the copy's row block -, not through the mapping)
    if not split and r.ok and r.op is not None and not gen.is_mip(spec) and r.op.A is not None and rng.random() < 0.4:
        import eaopack.stoch_lin_prog as SLP
        from ..canon import Snap
        try:
            base = Snap(r.op)
            T_ = r.built.timegrid.T
            kb = int(rng.integers(1, T_)) if T_ > 1 else 0
            S_ = int(rng.integers(1, 4))
            samp = [{k_: np.asarray(v_, float) for k_, v_ in gen.gen_prices(rng, T_, sorted(spec['prices']), cap_levels=spec.get('_cap_levels')).items()} for _ in range(S_)]
            if T_ > 1:
                with attach.paused(), env.quiet():
                    slp = SLP.make_slp(r.op, r.built.portfolio, r.built.timegrid, r.built.timegrid.timepoints[kb], samp)
                ss = Snap(slp)
                m_ = len(base.c); n_ = len(ss.c); mp = ss.mapping
                case.feature('slp_mapping')
                idx = np.asarray(mp.index, dtype=float)
                in_range = bool(np.all(idx == np.round(idx)) and idx.min() >= 0 and idx.max() < n_)
                case.check('slp.mapping_index_in_range', in_range, n=n_, imax=float(idx.max()))
                if in_range and (n_ - m_) % S_ == 0 and n_ > m_:
                    n_f = (n_ - m_) // S_
                    ident = {}
                    for i_, a_, vn_, nd_, t_ in zip(mp.index, mp['asset'], mp['var_name'], mp['node'], mp['time_step']):
                        ident.setdefault(int(i_), []).append((str(a_), str(vn_), str(nd_), int(t_)))
                    mixed = [j for j, rows_ in ident.items() if len({(q[0], q[1]) for q in rows_}) > 1]
                    case.check('slp.rows_of_a_variable_agree', not mixed, first=[{'variable': j, 'rows': ident[j][:4]} for j in mixed[:2]])
                    A = ss.A.tocsc(); nrows = base.A.shape[0]
                    colkey = lambda j, r0: (tuple((A.indices[A.indptr[j]:A.indptr[j + 1]][(A.indices[A.indptr[j]:A.indptr[j + 1]] >= r0) & (A.indices[A.indptr[j]:A.indptr[j + 1]] < r0 + nrows)] - r0).tolist()),
                                            tuple(np.round(A.data[A.indptr[j]:A.indptr[j + 1]][(A.indices[A.indptr[j]:A.indptr[j + 1]] >= r0) & (A.indices[A.indptr[j]:A.indptr[j + 1]] < r0 + nrows)], 12).tolist()))
                    basekeys = {}
                    for v_ in range(m_):
                        basekeys.setdefault(colkey(v_, 0), []).append(v_)
                    bad = None; matched = 0
                    for i_ in range(S_):
                        for q_ in range(n_f):
                            j = m_ + i_ * n_f + q_
                            k_ = colkey(j, (i_ + 1) * nrows)
                            cand = basekeys.get(k_, [])
                            if len(k_[0]) == 0 or len(cand) != 1:
                                continue
                            matched += 1
                            if sorted(set(ident.get(j, []))) != sorted(set(ident.get(cand[0], []))):
                                bad = {'copy': j, 'sample': i_, 'original': cand[0], 'rows_of_copy': sorted(set(ident.get(j, [])))[:4], 'rows_of_original': sorted(set(ident.get(cand[0], [])))[:4]}
                                break
                        if bad:
                            break
                    case.check('slp.copies_carry_the_rows_of_their_original', bad is None, nonvacuous=matched > 0, matched=matched, bad=bad, boundary_step=kb, samples=S_)
        except AssertionError:
            pass
        except Exception as e:
            case.check('slp.setup_works', False, error='%s: %s' % (type(e).__name__, str(e)[:160]))
    nodal = 0
    for pev in rec.of('portfolio_setup'):
        if pev.snap is not None:
            mon_mapping_asset(case, pev, prefix='portfolio_problem') if False else None
            mon_mapping_portfolio(case, pev, rec.children(pev, 'asset_setup'))
            nodal += (pev.snap.cType or '').count('N')
    # split problem: concatenated mapping refers to the original grid and to existing variables
    if split and r.ok and r.op is not None:
        m = r.op.mapping
        n = len(r.op.c)
        T = r.built.timegrid.T
        if len(m):
            case.check('split.index_in_range', int(m.index.min()) >= 0 and int(m.index.max()) < n, n=n, imax=int(m.index.max()))
            case.check('split.steps_on_original_grid', int(m['time_step'].min()) >= 0 and int(m['time_step'].max()) < T, T=T,
                       tmax=int(m['time_step'].max()))
        # the interval problems themselves are problems the portfolio produced: their own mapping must describe their own variables, their own record
        # of nodal rows must list their own nodal rows (one (step, node) entry per row of type N)
        for k, sub in enumerate(r.op.ops):
            nN_ = (sub.cType or '').count('N')
            rec_ = getattr(sub, 'map_nodal_restr', None)
            if rec_ is not None:
                case.check('split.interval_problem_nodal_records_match_rows', len(rec_) == nN_ and len(set((int(a_), str(b_)) for a_, b_ in rec_)) == nN_, interval=k, nodal_rows=nN_, records=len(rec_))
        for k, sub in enumerate(r.op.ops):
            mk = sub.mapping
            if mk is not None and len(mk):
                case.check('split.interval_problem_mapping_in_range', int(mk.index.min()) >= 0 and int(mk.index.max()) < len(sub.c), interval=k, n=len(sub.c),
                           imin=int(mk.index.min()), imax=int(mk.index.max()))
    case.event('asset_setup', rec.counts['asset_setup']); case.event('portfolio_setup', rec.counts['portfolio_setup'])
    case.nontrivial = n_assets_with_vars >= 2 and nodal >= 1


def _is_f62(v, rec):
    # ScaledAsset whose base asset has variables without mapping rows (orders outside the time grid): matrix columns of the asset's own problem are
    # counted over the mapped variables only
    if v.get('cls') != 'ScaledAsset':
        return False
    if v.get('clause') == 'asset.dims_matrix':
        A = v.get('A') or [0, 0]
        return bool(v.get('n') is not None and len(A) == 2 and A[1] < v['n'])
    # (the same fact seen from the portfolio: the asset's compact columns land on its mapped variables, not on offset + column number)
    return v.get('clause') in ('asset.unmapped_inert', 'portfolio.asset_rows_embedded')


CLASSIFIERS = {'c07_scaled_asset_over_base_with_unmapped_variables': _is_f62}
