"""C15 Fixing a time window pins exactly that part of the solution."""
import copy
import numpy as np
import pandas as pd
from .. import env, attach, gen, flow, solve
from ..canon import Snap

PROPERTY = 'C15'
gen.OFFGRID = 0.12      # some asset windows start or end strictly between two grid points
CASES = {'quick': 396, 'thorough': 3168}
BUDGET_S = {'quick': 300, 'thorough': 2400}
RULE = ('case = a portfolio (transports, multi-commodity, CHP/Plant with fuel rows, coarse-frequency and periodic assets, storages, order books - '
        'i.e. assets with several mapping rows per variable) set up and optimised through the real code, then set up again with fix_time_window = '
        '{I: window, x: previous solution} where the window is a boolean mask, an index array (prefix, middle, scattered) or a date, with the same or '
        'new random prices, and optimised again. Relational oracle between the recorded unfixed and fixed set-ups: every variable with a mapping row '
        'in the window has l = u = previous value, all other bounds, costs and rows are identical; the re-optimised x equals the previous x on the '
        'window; with unchanged prices the optimal value is unchanged. Non-trivial: window contains >=1 and misses >=1 variable with flow; '
        'distinct = (spec, window) hashes.')
ASSUMPTIONS = ['the fix_time_window dictionary is passed as a copy (C10 effects are kept out of this check)',
               'a variable belongs to the window if ANY of its mapping rows lies in it', 'dates are given zone-aware on zone-aware grids',
               'MIP portfolios whose re-optimisation reports failure are inconclusive (booleans pinned to values within solver tolerance of 0/1)']
MIN_NONVACUOUS = {'quick': {'fix.window_variables_pinned': 250, 'fix.other_bounds_untouched': 250, 'fix.solution_kept_on_window': 200, 'fix.same_prices_same_value': 100},
                  'thorough': {'fix.window_variables_pinned': 1500, 'fix.solution_kept_on_window': 1200, 'fix.same_prices_same_value': 600}}
KINDS = ('contract', 'transport', 'transport', 'storage', 'multi', 'multi', 'coarse', 'coarse', 'periodic', 'orderbook', 'plant', 'chp', 'structured', 'storage_mip')


def run_case(rng, tier, case):
    lp_only = rng.random() < 0.8
    base = gen.gen_mixed_portfolio(rng, kinds=[k for k in KINDS if not (lp_only and k in ('plant', 'chp', 'storage_mip'))], grid_kw={'steps': (6, 30)}, n_assets=(2, 5), n_nodes=(1, 3), mip_ok=not lp_only,
                                   data_caps=True)
    cap_levels = base.get('_cap_levels') or {}
    spec = gen.strip_private(base)
    if cap_levels:
        case.feature('capacity_from_data')
    for a_ in spec['assets']:
        if (a_.get('min_take') or a_.get('max_take')) and rng.random() < 0.4:
            a_['_container'] = 'array'          # take volumes / dates handed over as numpy arrays
    g = spec['grid']
    pts = gen.grid_points(g); T = len(pts)
    for t in gen.asset_types(spec):
        case.feature('type:' + t)
    wkind = gen.pick(rng, ['mask_prefix', 'mask_middle', 'index_prefix', 'index_middle', 'index_scattered', 'date', 'date'])
    k1 = int(rng.integers(1, max(2, T - 1)))
    if wkind == 'mask_prefix':
        I = np.arange(T) < k1; steps = np.where(I)[0]
    elif wkind == 'mask_middle':
        a = int(rng.integers(0, T - 1)); b = int(rng.integers(a + 1, T + 1)); I = (np.arange(T) >= a) & (np.arange(T) < b); steps = np.where(I)[0]
    elif wkind == 'index_prefix':
        I = np.arange(k1); steps = I
    elif wkind == 'index_middle':
        a = int(rng.integers(0, T - 1)); b = int(rng.integers(a + 1, T + 1)); I = np.arange(a, b); steps = I
    elif wkind == 'index_scattered':
        I = np.sort(rng.permutation(T)[:max(1, T // 3)]); steps = I
    else:
        d = pts[k1 - 1]
        edge = rng.random()
        if edge < 0.2:
            # the date on the last grid point, on the grid end or beyond it: everything is pinned
            d = gen.pick(rng, [pts[T - 1], pts[T - 1] + (pts[T - 1] - pts[T - 2]) if T >= 2 else pts[T - 1], pts[T - 1] + pd.Timedelta(days=3)])
            case.feature('date_at_or_after_last_point')
        elif edge < 0.27:
            d = pts[0] - pd.Timedelta(minutes=30)  # before the first point: nothing is pinned
            case.feature('date_before_first_point')
        elif edge < 0.5:
            d = d + pd.Timedelta(minutes=10)       # a date between two grid points
        if d.tzinfo is not None and rng.random() < 0.5:
            d = d.tz_convert(gen.pick(rng, ['UTC', 'Asia/Kolkata', 'America/New_York']))     # the same instant expressed in another zone
            case.feature('date_in_other_zone')
        I = d if rng.random() < 0.5 else d.to_pydatetime()
        mids = [p_ for p_ in pts[1:] if p_.hour == 0 and p_.minute == 0]
        if g.get('tz') is None and mids and rng.random() < 0.35:
            # the window given as a calendar date (datetime.date): documented to mean that day's first instant, like any other date
            d = mids[int(rng.integers(len(mids)))]; I = d.date()
            case.feature('window_as_calendar_date')
        steps = np.array([t for t in range(T) if pts[t] <= d])
    if isinstance(I, np.ndarray) and rng.random() < 0.3:
        I = [bool(v) for v in I] if I.dtype == bool else [int(v) for v in I]      # the window as a plain Python list (of booleans / of step numbers)
        case.feature('window_as_list')
    same_prices = rng.random() < 0.5
    case.feature('window:' + wkind, 'same_prices' if same_prices else 'new_prices')
    case.key = env.spec_key([spec, wkind, [int(s) for s in steps], same_prices])
    case.sample = dict(gen.abbreviate(base), window=wkind, steps=[int(s) for s in steps][:12], same_prices=same_prices)
    case.spec = {'spec': spec, 'window_kind': wkind, 'steps': [int(s) for s in steps], 'same_prices': same_prices}
    mip = gen.is_mip(spec)
    tolv = solve.TOL_VAL_MIP if mip else solve.TOL_VAL
    split = None
    if rng.random() < 0.2 and not g['freq'].endswith('d'):
        split = gen.pick(rng, ['d', '12h', '6h'])          # fix_time_window is a documented argument of the split set-up as well
        case.feature('split:' + split)
        case.spec['split'] = split; case.sample['split'] = split; case.key = env.spec_key([case.key, split])
    r0 = flow.run_portfolio(spec, do_extract=False, split=split)
    if not r0.ok:
        case.reject('unfixed: ' + flow.describe_error(r0)); return
    if not r0.solved:
        case.inconc('unfixed not solved'); return
    x0 = np.asarray(r0.res.x, float).copy()
    pr = r0.built.prices if same_prices else {k: np.asarray(v) for k, v in gen.gen_prices(rng, T, sorted(spec['prices']), cap_levels=cap_levels).items()}
    spec2 = spec if same_prices else dict(spec, prices={k: [float(x) for x in v] for k, v in pr.items()})
    # a fresh set of objects for the fixed run - or (rolling re-planning) the objects that produced the first solution -, the window dictionary passed as a copy
    fw = {'I': copy.deepcopy(I), 'x': x0.copy()}
    same_objects = rng.random() < 0.5
    if same_objects:
        case.feature('fixed_run_on_same_objects')
    r1 = flow.run_portfolio(spec2, do_extract=False, fix_time_window=fw, split=split, built=r0.built if same_objects else None, prices=pr if same_objects else None)
    if not r1.ok:
        case.check('fix.setup_works', False, window=wkind, split=split, error=flow.describe_error(r1)); return
    case.check('fix.setup_works', True, window=wkind)

    def snap_of(op):
        if not split:
            return Snap(op)
        import types
        ns = types.SimpleNamespace()
        ns.c = np.concatenate([np.asarray(o.c, float) for o in op.ops]); ns.l = np.concatenate([np.asarray(o.l, float) for o in op.ops])
        ns.u = np.concatenate([np.asarray(o.u, float) for o in op.ops]); ns.mapping = op.mapping.copy()
        ns.b = np.concatenate([np.asarray(o.b, float) for o in op.ops if o.b is not None]) if any(o.b is not None for o in op.ops) else np.zeros(0)
        ns.cType = ''.join(o.cType or '' for o in op.ops)
        return ns
    s0 = snap_of(r0.op); s1 = snap_of(r1.op)
    if not same_prices and cap_levels:
        # bounds depend on the data set: the baseline for 'all other variables remain free' is the UNFIXED set-up with the new data
        rb = flow.run_portfolio(spec2, do_optimize=False, split=split)
        if not rb.ok or len(snap_of(rb.op).c) != len(s0.c):
            case.inconc('unfixed set-up with the new data failed / differs in size'); return
        s0 = snap_of(rb.op)
    if len(s0.c) != len(s1.c):
        case.check('fix.same_variables', False, n0=len(s0.c), n1=len(s1.c)); return
    # which step an internal variable (on/off flag, charge/discharge mode) belongs to decides whether the window pins it: read off the asset's own rows
    from ..mon_problem import mon_internal_steps
    for pev_, kids_ in flow.top_setups(r1.rec):
        for kd_ in kids_:
            mon_internal_steps(case, kd_, clause='fix.internal_variables_filed_under_their_step')
    m = s1.mapping
    inwin = np.zeros(len(s1.c), bool)
    rows_in = m['time_step'].isin([int(s) for s in steps]).values
    inwin[np.unique(np.asarray(m.index)[rows_in]).astype(int)] = True
    outwin = ~inwin
    tol = 1e-9 * (1 + np.abs(x0))
    pinned = np.abs(s1.l - x0) <= tol
    pinned &= np.abs(s1.u - x0) <= tol
    bad = np.where(inwin & ~pinned)[0]
    flowin = bool(np.any(np.abs(x0[inwin]) > 1e-6)); flowout = bool(np.any(np.abs(x0[outwin]) > 1e-6))
    case.check('fix.window_variables_pinned', len(bad) == 0, nonvacuous=inwin.any(), window=wkind, n_window_vars=int(inwin.sum()), not_pinned=bad[:6].tolist(),
               l=s1.l[bad[:3]].tolist(), u=s1.u[bad[:3]].tolist(), x_prev=x0[bad[:3]].tolist())
    # all other variables remain free: bounds as in the unfixed problem (same prices: costs and rows identical as well)
    sameA = (lambda: True) if split else (lambda: (abs(s1.A - s0.A).nnz == 0 or abs(s1.A - s0.A).max() == 0))
    if same_prices:
        okb = np.array_equal(s1.l[outwin], s0.l[outwin]) and np.array_equal(s1.u[outwin], s0.u[outwin])
        okrest = np.array_equal(s1.c, s0.c) and sameA() and np.array_equal(s1.b, s0.b) and s1.cType == s0.cType
    else:
        # bounds do not depend on prices for the generated classes except capacity given as price key (not generated)
        okb = np.array_equal(s1.l[outwin], s0.l[outwin]) and np.array_equal(s1.u[outwin], s0.u[outwin])
        okrest = sameA() and np.array_equal(s1.b, s0.b) and s1.cType == s0.cType
    badb = np.where(outwin & ((s1.l != s0.l) | (s1.u != s0.u)))[0]
    case.check('fix.other_bounds_untouched', bool(okb), nonvacuous=outwin.any(), window=wkind, changed=badb[:6].tolist())
    case.check('fix.rows_and_costs_untouched', bool(okrest), window=wkind)
    if not r1.solved:
        if mip or r1.res == 'inaccurate':
            case.inconc('fixed problem not solved (MIP / inaccurate): ' + str(r1.res))
        else:
            case.check('fix.reoptimisation_succeeds', False, window=wkind, result=str(r1.res))
        return
    x1 = np.asarray(r1.res.x, float)
    dev = np.abs(x1 - x0)[inwin]
    case.check('fix.solution_kept_on_window', bool(dev.max() <= 1e-6 * (1 + np.abs(x0).max())) if inwin.any() else True, nonvacuous=flowin, window=wkind,
               worst=float(dev.max()) if inwin.any() else 0.)
    if same_prices:
        v0, v1 = float(r0.res.value), float(r1.res.value)
        case.check('fix.same_prices_same_value', abs(v0 - v1) <= tolv * (1 + abs(v0)), nonvacuous=flowin, value_prev=v0, value_fixed=v1, window=wkind)
    case.nontrivial = flowin and flowout
