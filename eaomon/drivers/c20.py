"""C20 Order book: partial or full execution, delivered over the order's window."""
import numpy as np
import pandas as pd
from .. import env, attach, gen, flow, solve
from ..spec import Clock
from ..refmodel import RefLP, eao_point
from ..canon import Snap

PROPERTY = 'C20'
CASES = {'quick': 432, 'thorough': 3456}
BUDGET_S = {'quick': 240, 'thorough': 2400}
RULE = ('case = one order book (1-25 orders: buy/sell, overlapping, partly or wholly outside the horizon, zero capacity; full execution in a '
        'quarter of the cases) at any position in a random portfolio with market / storage / contract companions on hourly..daily grids; '
        'optimised and extracted through the real code. Clauses: execution fractions in [0,1] (integral with full_exec); per step the book\'s '
        'dispatch = sum fraction*capa*dt over covering orders; order costs in the special output = fraction*capa*price*sum dt*disc; optimum = '
        'independent formulation with one execution variable per order (HiGHS LP/MILP); the same portfolio without the orders that have no step '
        'inside the horizon gives the identical problem on the remaining variables and the same optimum. Non-trivial: >=1 order executed with '
        'fraction > 1e-6; distinct = spec hashes.')
ASSUMPTIONS = ['orders are given zone-aware on zone-aware grids (EAO compares them with the grid points directly)',
               'value tolerance 1e-5 (MIP 2e-4) relative']
MIN_NONVACUOUS = {'quick': {'orders.dispatch_is_sum_of_executed_orders': 175, 'orders.costs_reported': 175, 'orders.value_equals_reference': 175,
                            'orders.inert_outside_horizon': 100, 'orders.full_exec_integral': 30},
                  'thorough': {'orders.dispatch_is_sum_of_executed_orders': 1000, 'orders.value_equals_reference': 1000, 'orders.inert_outside_horizon': 600}}


def gen_case(rng):
    g = gen.gen_grid(rng, freqs=['h', 'h', '2h', '4h', 'd', '30min'], steps=(4, 30)) if rng.random() < 0.8 else gen.gen_grid(rng, dst=True, steps=(6, 14))      # (a fifth: steps of unequal length)
    f = gen.UNIT_F[g['unit']]
    T = len(gen.grid_points(g))
    nn = int(rng.integers(1, 3)); nodes = ['n%d' % i for i in range(nn)]
    assets = []; pk = []
    full = rng.random() < 0.25
    lvl = 20.
    for i, n in enumerate(nodes):
        assets.append(gen.gen_market(rng, 'mkt%d' % i, n, f, 'p%d' % i, spread=gen.pick(rng, [0.5, 2., 6.]), cap=gen.pick(rng, [3., 10., 50.]))); pk.append('p%d' % i)
    ob = gen.gen_orderbook(rng, g, 'book', gen.pick(rng, nodes), n_orders=int(rng.integers(1, 26 if not full else 10)), full_exec=full, price_level=lvl)
    if rng.random() < 0.3:
        ob['wacc'] = gen.pick(rng, [0.5, 2.0])          # a discount rate at which the factor differs visibly from step to step
    if rng.random() < 0.3 and len(ob['orders']['start']) >= 1:
        # the same order twice (two identical lots): two execution variables
        k_ = int(rng.integers(len(ob['orders']['start'])))
        pos_ = int(rng.integers(len(ob['orders']['start']) + 1))
        for kk in ob['orders']:
            ob['orders'][kk] = list(ob['orders'][kk]); ob['orders'][kk].insert(pos_, ob['orders'][kk][k_])
    if g['tz'] is None and rng.random() < 0.4:
        ob['_orders_as_df'] = True       # the documented DataFrame form of the order data (usable on naive grids)
    assets.append(ob)
    for j in range(int(rng.integers(0, 3))):
        key = 'q%d' % j; pk.append(key)
        r = rng.random()
        if r < 0.4:
            assets.append(gen.gen_storage(rng, g, 's%d' % j, [gen.pick(rng, nodes)], f, window=False))
        elif r < 0.7 and nn > 1:
            assets.append(gen.gen_transport(rng, g, 't%d' % j, nodes[0], nodes[1], f, window=False, extended=False))
        else:
            assets.append(gen.gen_contract(rng, g, 'c%d' % j, gen.pick(rng, nodes), f, key, take=False))
    perm = rng.permutation(len(assets)); assets = [assets[int(i)] for i in perm]
    return {'grid': g, 'assets': assets, 'prices': gen.gen_prices(rng, T, sorted(set(pk)), kind='normal')}


def run_wrapped_case(rng, tier, case):
    """the order book as base asset of a wrapper with a lifetime of its own (ScaledAsset at fixed scale 1): the book acts inside that lifetime only - an
    order is delivered over the steps of its window that lie in the lifetime, and paid for those steps, each with its own discount factor."""
    spec = gen_case(rng)
    sp = gen.strip_private(spec)
    ob = [a for a in sp['assets'] if a['type'] == 'OrderBook'][0]
    ob.pop('_orders_as_df', None); ob['full_exec'] = False
    ob['wacc'] = float(gen.pick(rng, [0., 0.5, 2.0]))
    ws, we, _k = gen.gen_window(rng, sp['grid'], kinds=['inside', 'inside', 'straddle_start', 'straddle_end', 'start_only', 'end_only'])
    wrapper = {'type': 'ScaledAsset', 'name': 'wrapped_book', 'base': ob, 'min_scale': 1., 'max_scale': 1., 'norm_scale': 1., 'fix_costs': 0., 'start': ws, 'end': we, 'wacc': 0.}
    sp['assets'] = [wrapper if a is ob else a for a in sp['assets']]
    case.feature('book_inside_wrapper_with_lifetime', 'freq:' + sp['grid']['freq'])
    case.key = env.spec_key([sp, 'wrapped']); case.sample = gen.abbreviate(sp); case.spec = sp
    r = flow.run_portfolio(sp)
    if not r.ok:
        if isinstance(r.error, AssertionError):
            case.reject(flow.describe_error(r)); return
        case.check('orders.wrapped_book_setup_works', False, error=flow.describe_error(r), window=[ws, we]); return
    ck = Clock(sp['grid'])
    W = set(ck.window(ws, we))
    o = ob['orders']; n = len(o['start'])
    d = ck.disc(ob.get('wacc', 0.))
    cover = []
    for k in range(n):
        s_ = ck.ts(o['start'][k]); e_ = ck.ts(o['end'][k])
        cover.append([t for t in range(ck.T) if s_ <= ck.points[t] < e_ and t in W])
    kd = [k_ for pev, kids in flow.top_setups(r.rec)[:1] for k_ in kids if k_.args['name'] == 'wrapped_book']
    if not kd or kd[0].snap is None or len(kd[0].snap.c) == 0:
        case.feature('wrapped_book_inactive'); return
    cvec = np.asarray(kd[0].snap.c, float)
    if len(cvec) != n + 1:
        case.check('orders.one_variable_per_order', False, n_orders=n, n_vars=len(cvec) - 1, wrapped=True); return
    wantv = np.array([o['capa'][k] * o['price'][k] * float(np.sum(ck.dt[cover[k]] * d[cover[k]])) if cover[k] else 0. for k in range(n)])
    kb = int(np.argmax(np.abs(cvec[:n] - wantv) / (1. + np.abs(wantv))))
    case.check('orders.cost_coefficient_is_discounted_per_step', bool(np.all(np.abs(cvec[:n] - wantv) <= 1e-9 * (1. + np.abs(wantv)))), nonvacuous=any(cover), order=kb, coefficient=float(cvec[kb]),
               want=float(wantv[kb]), wacc=ob.get('wacc', 0.), wrapped=True, window=[ws, we])
    m = kd[0].snap.mapping
    rows = m[m['type'] == 'd']
    steps_of = {}
    for i_, t_ in zip(rows.index, rows['time_step']):
        steps_of.setdefault(int(i_), set()).add(int(t_))
    bad = [k for k in range(n) if steps_of.get(k, set()) != set(cover[k])]
    case.check('orders.delivered_over_window_inside_lifetime', not bad, nonvacuous=any(cover), first_bad=[{'order': k, 'steps': sorted(steps_of.get(k, set()))[:6], 'want': cover[k][:6]} for k in bad[:2]], window=[ws, we])
    case.nontrivial = any(cover)


def run_case(rng, tier, case):
    if rng.random() < 0.12:
        return run_wrapped_case(rng, tier, case)
    spec = gen_case(rng)
    sp = gen.strip_private(spec)
    ob = [a for a in sp['assets'] if a['type'] == 'OrderBook'][0]
    pos = [a['name'] for a in sp['assets']].index('book')
    case.feature('book_position:' + ('first' if pos == 0 else 'last' if pos == len(sp['assets']) - 1 else 'middle'),
                 'full_exec' if ob['full_exec'] else 'partial', 'freq:' + sp['grid']['freq'])
    case.key = env.spec_key(sp); case.sample = gen.abbreviate(spec); case.spec = spec
    via_json = rng.random() < 0.15 and not spec['grid'].get('tz')       # (an order book rebuilt from JSON holds naive dates - usable on naive grids, like the DataFrame form)
    if via_json:
        case.feature('portfolio_from_its_json_form')          # the book stored and loaded before use: still the book that was described (full_exec, orders)
    r = flow.run_portfolio(spec, via_json=via_json)
    if not r.ok:
        case.reject(flow.describe_error(r)); return
    if r.res == 'inaccurate':
        case.inconc('inaccurate'); return
    ck = Clock(sp['grid'])
    o = ob['orders']; n = len(o['start'])
    cover = []
    for k in range(n):
        s = ck.ts(o['start'][k]); e = ck.ts(o['end'][k])
        cover.append([t for t in range(ck.T) if s <= ck.points[t] < e])
    inside = [k for k in range(n) if cover[k]]
    if len(inside) < n:
        case.feature('orders_outside_horizon')
    ref = RefLP(sp)
    sol = ref.solve()
    if sol['status'] not in ('optimal', 'infeasible'):
        case.inconc('reference: ' + sol['status']); return
    case.check('orders.feasibility_agrees', r.solved == (sol['status'] == 'optimal'), eao=str(r.res)[:30], reference=sol['status'])
    if not r.solved or sol['status'] != 'optimal':
        return
    mip = bool(ob['full_exec'])
    v = float(r.res.value)
    case.check('orders.value_equals_reference', abs(v - sol['value']) <= (solve.TOL_VAL_MIP if mip else solve.TOL_VAL) * (1 + abs(v)), eao=v, reference=sol['value'])
    # execution fractions: the book's own variables, located through the recorded set-up (offset of the asset), not through the mapping
    pev, kids = flow.top_setups(r.rec)[0]
    off = 0
    for kd in kids:
        if kd.args['name'] == 'book':
            break
        off += len(kd.snap.c)
    x = np.asarray(r.res.x, float)
    frac = x[off:off + n]
    case.check('orders.one_variable_per_order', len(kd.snap.c) == n, n_orders=n, n_vars=len(kd.snap.c))
    case.check('orders.fraction_in_unit_interval', bool(np.all(frac >= -1e-6) and np.all(frac <= 1 + 1e-6)), fractions=frac[:10].tolist())
    if mip:
        # (orders without any step in the horizon are inert and appear in no output: no claim on their variable)
        fi = frac[inside] if inside else np.zeros(0)
        case.check('orders.full_exec_integral', bool(np.all(np.abs(fi - np.round(fi)) <= 1e-6)), nonvacuous=len(fi) > 0, fractions=fi[:10].tolist())
    executed = bool(np.any(frac[inside] > 1e-6)) if inside else False
    # dispatch per step
    want = np.zeros(ck.T)
    for k in range(n):
        for t in cover[k]:
            want[t] += frac[k] * o['capa'][k] * ck.dt[t]
    col = 'book' if len(r.built.portfolio.nodes) == 1 else 'book (%s)' % ob['nodes'][0]
    got = r.out['dispatch'][col].values.astype(float)
    tol = 1e-6 * (1 + np.abs(want).max())
    kbad = int(np.argmax(np.abs(got - want)))
    case.check('orders.dispatch_is_sum_of_executed_orders', bool(np.abs(got - want).max() <= tol), nonvacuous=executed, step=kbad, reported=float(got[kbad]), want=float(want[kbad]))
    # costs in the special output
    d = ck.disc(ob.get('wacc', 0.))
    sp_out = r.out['special']
    rows = sp_out[(sp_out['asset'] == 'book')]
    okc = True; bad = None
    seen = set()
    for _, row in rows.iterrows():
        k = int(row['name']); seen.add(k)
        wantc = frac[k] * o['capa'][k] * o['price'][k] * float(np.sum(ck.dt[cover[k]] * d[cover[k]]))
        if abs(float(row['costs']) - wantc) > 1e-6 * (1 + abs(wantc)) or abs(float(row['value']) - frac[k]) > 1e-9:
            okc = False; bad = [k, float(row['costs']), wantc, float(row['value']), float(frac[k])]
    case.check('orders.costs_reported', okc and seen == set(inside), nonvacuous=executed, bad=bad, reported_orders=sorted(seen)[:10], in_horizon=inside[:10])
    # the cost coefficient of an order's execution variable: price x capacity x (length of each covered step x that step's discount factor), summed
    cvec = np.asarray(kd.snap.c, float)
    wantv = np.array([o['capa'][k] * o['price'][k] * float(np.sum(ck.dt[cover[k]] * d[cover[k]])) if cover[k] else 0. for k in range(n)])
    if len(cvec) == n:
        kb = int(np.argmax(np.abs(cvec - wantv) / (1. + np.abs(wantv))))
        case.check('orders.cost_coefficient_is_discounted_per_step', bool(np.all(np.abs(cvec - wantv) <= 1e-9 * (1. + np.abs(wantv)))), nonvacuous=bool(inside),
                   order=kb, coefficient=float(cvec[kb]), want=float(wantv[kb]), wacc=ob.get('wacc', 0.), unequal_steps=bool(np.ptp(ck.dt) > 1e-12))
    # the cost vector alone (the documented costs_only route used for price samples / robust / SLP) is the problem's cost vector
    try:
        with attach.paused(), env.quiet():
            c_only = np.asarray(r.built.portfolio.setup_optim_problem(r.built.prices, r.built.timegrid, costs_only=True), float)
        cfull = Snap(r.op).c
        case.check('orders.cost_vector_equals_problem_costs', c_only.shape == cfull.shape and bool(np.allclose(c_only, cfull, rtol=1e-9, atol=1e-12)), wacc=ob.get('wacc', 0.),
                   worst=float(np.max(np.abs(c_only - cfull))) if c_only.shape == cfull.shape else None)
    except Exception as e:
        case.check('orders.cost_vector_equals_problem_costs', False, error='%s: %s' % (type(e).__name__, str(e)[:160]))
    if rng.random() < 0.4:
        # ... also on ANOTHER grid with the same start and end but other steps (a daily planning run, then hourly price samples): the used objects
        # give the cost vector fresh objects give
        try:
            from ..spec import build, build_timegrid
            gY = dict(gen.strip_private(spec)['grid'])
            gY['freq'] = {'h': gen.pick(rng, ['2h', '30min', '4h']), '30min': 'h', '15min': 'h', '2h': gen.pick(rng, ['h', '4h']), '4h': gen.pick(rng, ['h', '2h'])}.get(gY['freq'])
            if gY['freq'] is not None:
                with attach.paused(), env.quiet():
                    tgY = build_timegrid(gY)
                    prY = {k: np.asarray(v_, float) for k, v_ in gen.gen_prices(rng, tgY.T, sorted(spec['prices'])).items()}
                    c_used = np.asarray(r.built.portfolio.setup_optim_problem(prY, tgY, costs_only=True), float)
                    c_fresh = np.asarray(build(gen.strip_private(spec)).portfolio.setup_optim_problem(prY, build_timegrid(gY), costs_only=True), float)
                case.check('orders.cost_vector_on_other_grid_same_as_fresh', c_used.shape == c_fresh.shape and bool(np.allclose(c_used, c_fresh, rtol=1e-9, atol=1e-12)),
                           other_freq=gY['freq'], worst=float(np.max(np.abs(c_used - c_fresh))) if c_used.shape == c_fresh.shape and len(c_used) else None)
        except Exception as e:
            case.check('orders.cost_vector_on_other_grid_same_as_fresh', False, error='%s: %s' % (type(e).__name__, str(e)[:160]))
    if mip and rng.random() < 0.6:
        # the documented relaxed run on the same problem object, then an ordinary run again: full execution is enforced as before
        try:
            with attach.paused(), env.quiet():
                r.op.optimize(make_soft_problem=True)
                res2 = r.op.optimize()
            if not isinstance(res2, str):
                f2 = np.asarray(res2.x, float)[off:off + n]
                fi2 = f2[inside] if inside else np.zeros(0)
                case.check('orders.full_exec_integral', bool(np.all(np.abs(fi2 - np.round(fi2)) <= 1e-6)), nonvacuous=len(fi2) > 0, fractions=fi2[:10].tolist(), after_relaxed_run=True)
                case.check('orders.value_equals_reference', abs(float(res2.value) - sol['value']) <= solve.TOL_VAL_MIP * (1 + abs(v)), eao=float(res2.value), reference=sol['value'], after_relaxed_run=True)
        except Exception as e:
            case.check('orders.rerun_after_relaxed_run_works', False, error='%s: %s' % (type(e).__name__, str(e)[:160]))
    # the same objects on the same grid object a second time (the book then already holds the grid; another asset was the last to restrict it):
    # delivery windows, payments and discounting of the orders are those of the first set-up
    if rng.random() < 0.5:
        from ..canon import problem_diff
        rb = flow.run_portfolio(spec, built=r.built, do_optimize=False)
        if not rb.ok:
            case.check('orders.second_setup_same_problem', False, error=flow.describe_error(rb))
        else:
            d2 = problem_diff(Snap(r.op), Snap(rb.op), rtol=0., compare_mapping=True)
            case.check('orders.second_setup_same_problem', d2 is None, diff=d2)
    # orders without in-horizon step are inert: the book without them gives the same problem on the remaining variables
    if len(inside) < n:
        sp2 = gen.strip_private(spec)
        for a in sp2['assets']:
            if a['type'] == 'OrderBook':
                a['orders'] = {kk: [vv[k] for k in inside] for kk, vv in a['orders'].items()}
        r2 = flow.run_portfolio(sp2, do_extract=False)
        if r2.ok and r2.solved:
            keep = np.ones(len(x), bool)
            drop = [off + k for k in range(n) if k not in inside]
            keep[drop] = False
            p1 = Snap(r.op); p2 = Snap(r2.op)
            same = (np.array_equal(p1.c[keep], p2.c) and np.array_equal(p1.l[keep], p2.l) and np.array_equal(p1.u[keep], p2.u)
                    and abs(p1.A[:, np.where(keep)[0]] - p2.A).max() == 0 and np.array_equal(p1.b, p2.b) and p1.cType == p2.cType
                    and np.all(p1.c[drop] == 0) and abs(p1.A[:, drop]).sum() == 0)
            case.check('orders.inert_outside_horizon', bool(same) and abs(float(r2.res.value) - v) <= (solve.TOL_VAL_MIP if mip else solve.TOL_VAL) * (1 + abs(v)),
                       value_with=v, value_without=float(r2.res.value), problem_identical=bool(same), dropped=drop[:5])
        else:
            case.check('orders.inert_outside_horizon', False, error='portfolio without the outside orders failed: ' + (flow.describe_error(r2) if not r2.ok else str(r2.res)))
    case.nontrivial = executed
