"""C06 Plant/CHP unit commitment: runtime, downtime, ramps, starts, heat and fuel."""
import itertools, copy
import numpy as np
import pandas as pd
from pandas.tseries.frequencies import to_offset
from .. import env, attach, gen, flow, solve
from ..spec import Clock, build, build_timegrid
from ..canon import Snap

PROPERTY = 'C06'
CASES = {'quick': 396, 'thorough': 3168}
BUDGET_S = {'quick': 400, 'thorough': 3000}
RULE = ('three monitors on Plant / CHPAsset problems produced by the real set-up. M6a (pattern admission, exhaustive workload): for a parameter '
        'combination (min runtime, min downtime, initial state running-for-R / off-for-F, freq vs. main-unit conversions, with/without start variables, '
        'with/without start/shutdown ramp profiles, Plant or CHP) the asset builds its problem once and EVERY on/off pattern in {0,1}^T (T=6 quick, '
        '8 thorough) is pinned on the bool_on variables; HiGHS decides feasibility of the real rows; the 20-line run-length model decides admission; '
        'any disagreement (wrongly admitted or wrongly excluded) is a violation. M6b (trace clauses): plant + markets with random prices solved by '
        'EAO\'s own MIP path; off => zero output and heat, on => virtual output within [min,max] capacity (ramp-profile steps within the profile '
        'bounds), |change| <= ramp incl. first step vs last dispatch, start flag >= on_t - on_(t-1) (= when starts are strictly costly), heat <= '
        'share x power, fuel drawn = output/efficiency + running + start consumption, pattern admitted by the M6a model. M6c (reference): optimum = '
        'independent textbook unit-commitment MILP built from the spec (HiGHS). Non-trivial: M6a parameter set with >=1 excluded pattern / M6b-c '
        'solution with >=1 switch; distinct = parameter-set hashes.')
ASSUMPTIONS = ['durations are multiples of the step (ceil conversion is exercised with half steps separately in M6a)',
               'min runtime is increased by the lengths of the start and shutdown ramp profiles (documented: they do not count towards the min runtime)',
               'limits <= 1 step mean "none"; initial state "off, duration unknown" (both 0) makes no claim on the first off-run',
               'M6c excludes ramp profiles (covered by M6b); MIP value tolerance 2e-4 relative',
               'with free starts a spurious start flag is cost-neutral: equality start = on_t - on_(t-1) is only demanded when a start is strictly costly']
MIN_NONVACUOUS = {'quick': {'uc.pattern_admission': 5000, 'uc.off_means_zero': 62, 'uc.capacity_when_on': 62, 'uc.ramp': 30, 'uc.start_flag': 50,
                            'uc.fuel_balance': 30, 'uc.heat_share': 20, 'uc.pattern_respects_runtime_downtime': 40, 'uc.value_equals_reference': 50},
                  'thorough': {'uc.pattern_admission': 60000, 'uc.off_means_zero': 250, 'uc.ramp': 120, 'uc.value_equals_reference': 200}}


# -------------------------------------------------------------------------------------------------
# M6a model
# -------------------------------------------------------------------------------------------------
def admitted(p, MR, MD, R, F):
    """Run-length model. MR/MD in steps (<=1: none); R>0 running for R steps; F>0 off for F steps; both 0: off, duration unknown."""
    hist = [1] * R if R > 0 else ([0] * F if F > 0 else [])
    seq = hist + list(p); H = len(hist); N = len(seq)
    i = 0
    while i < N:
        j = i
        while j < N and seq[j] == seq[i]:
            j += 1
        length = j - i; cut = (j == N)
        unknown_start = (i == 0 and H == 0 and seq[i] == 0)
        if not cut and not unknown_start:
            if seq[i] == 1 and MR > 1 and length < MR:
                return False
            if seq[i] == 0 and MD > 1 and length < MD:
                return False
        i = j
    return True


def pinned_feasible(snap, on_vars, p):
    l = snap.l.copy(); u = snap.u.copy()
    l[on_vars] = np.maximum(l[on_vars], p); u[on_vars] = np.minimum(u[on_vars], p)
    if np.any(l > u + 1e-12):
        return False
    s = solve.solve_op(snap, extra_l=l, extra_u=u, time_limit=20.)
    # zero objective would be enough; the real costs do not matter for feasibility
    if s['status'] == 'other':
        return None
    return s['status'] == 'optimal'


def run_m6a(rng, tier, case):
    import eaopack.assets as EA
    from eaopack.basic_classes import Node, Timegrid
    T = 6 if tier == 'quick' else 8
    freq, unit, stepf = gen.pick(rng, [('h', 'h', 1.), ('h', 'h', 1.), ('30min', 'h', 0.5), ('2h', 'h', 2.), ('h', 'd', 1 / 24.), ('15min', 'min', 15.), ('d', 'h', 24.)])
    MRs = int(gen.pick(rng, [0, 0, 2, 3, 4, 4, T + 1, T + 3])); MDs = int(gen.pick(rng, [0, 0, 2, 3, T + 2]))      # (also limits longer than the horizon)
    Rs, Fs = gen.pick(rng, [(0, 1), (0, 2), (0, 3), (1, 0), (2, 0), (4, 0), (0, 0), (0, T + 2), (0, 2 * T - 1), (T + 1, 0)])      # (also states that have lasted longer than the horizon)
    if MDs > 1 and not ((Fs == 0) ^ (Rs == 0)):
        Rs, Fs = (0, 2)
    sc = gen.pick(rng, [0., 0., 1.])
    prof = gen.pick(rng, [None, None, None, ([1., 2.], [3.]), ([1.], None), ([2.], [2.]), ([2.5, 3.5], [1., 3.], 1.5), ([2.5, 3.5], [1., 3.], 1.5)])
    ramp_in = None
    if prof:        # profile bounds are rates in main units: keep them below the minimum capacity (4 per step) like a real ramp-up
        if len(prof) == 3:
            # with a ramp limit of 1.5 per step: 3.5 -> 4 (first normal step) and 4 -> 3 (entering the shutdown profile) respect it, the steps INSIDE the
            # profiles (0 -> 2.5, 3 -> 1 -> 0) exceed it - profiles take precedence where given, so the admissible patterns are unchanged
            ramp_in = prof[2] / stepf
        prof = ([v / stepf for v in prof[0]], None if prof[1] is None else [v / stepf for v in prof[1]])
    half = rng.random() < 0.15      # durations of 1.5 / 2.5 steps: ceil conversion
    chp = rng.random() < 0.3
    kw = {}
    k = m = 0
    if prof:
        s_, sd_ = prof
        kw = dict(start_ramp_lower_bounds=list(s_), start_ramp_upper_bounds=list(s_), ramp_freq=freq)
        k = len(s_)
        if sd_:
            kw.update(shutdown_ramp_lower_bounds=list(sd_), shutdown_ramp_upper_bounds=list(sd_)); m = len(sd_)
        if ramp_in is not None:
            kw.update(ramp=ramp_in)
        if Rs > 0 and rng.random() < 0.5:
            Rs, Fs = 0, max(Fs, 1)      # (otherwise: declared running - possibly with the start ramp still in progress)
        elif Rs > 0 and ramp_in is not None:
            kw.update(last_dispatch=(s_[Rs - 1] if Rs <= k else 4. / stepf))      # the output of the step before the horizon, consistent with the declared state
    mincap_steps = np.full(T, 4.)          # minimum output per step (volume per step)
    if rng.random() < 0.3 and ramp_in is None:      # (with a ramp limit the chosen profile values are tuned to a minimum output of 4)
        # a minimum output that changes in the course of the horizon (interval data): admission is unchanged, the output range of a step follows it
        cstep = int(rng.integers(1, T)); mincap_steps[cstep:] = float(gen.pick(rng, [5., 3., 5.]))
    MR_in = (MRs - 0.5 if (half and MRs >= 2) else MRs) * stepf
    MD_in = (MDs - 0.5 if (half and MDs >= 2) else MDs) * stepf
    params = dict(min_cap_per_step=mincap_steps.tolist(), freq=freq, unit=unit, min_runtime_steps=MRs, min_downtime_steps=MDs, running_steps=Rs, off_steps=Fs, start_costs=sc, profiles=prof, ramp=ramp_in, half_steps=half, chp=chp, T=T)
    case.key = env.spec_key(params); case.sample = params; case.spec = params
    case.feature('m6a', 'freq:%s/%s' % (freq, unit), 'profiles' if prof else 'no_profiles', 'chp' if chp else 'plant')
    with attach.recording() as rec, env.quiet():
        try:
            start = pd.Timestamp('2021-01-04')
            tg = Timegrid(start, start + T * pd.Timedelta(to_offset(freq)), freq=freq, main_time_unit=unit)
            mc_ = 4. / stepf
            if np.ptp(mincap_steps) > 0:
                ch_ = start + int(np.argmax(mincap_steps != 4.)) * pd.Timedelta(to_offset(freq))
                mc_ = {'start': [start - pd.Timedelta(days=40), ch_], 'end': [ch_, start + pd.Timedelta(days=40)], 'values': [4. / stepf, float(mincap_steps[-1]) / stepf]}
                case.feature('m6a_time_varying_min_cap')
            common = dict(min_cap=mc_, max_cap=8. / stepf, min_runtime=MR_in, min_downtime=MD_in, time_already_running=Rs * stepf, time_already_off=Fs * stepf,
                          start_costs=sc, **kw)
            if chp:
                a = EA.CHPAsset(name='P', nodes=[Node('pw'), Node('ht')], conversion_factor_power_heat=0.5, max_share_heat=1., **common)
            else:
                a = EA.Plant(name='P', nodes=[Node('pw')], **common)
            op = a.setup_optim_problem({}, tg)
        except AssertionError as e:
            case.reject('assertion: ' + str(e)[:100]); return
        except Exception as e:
            case.check('uc.setup_works', False, params=params, error='%s: %s' % (type(e).__name__, str(e)[:150])); return
    ev = rec.of('asset_setup')[-1]
    snap = ev.snap
    mp = snap.mapping
    on_rows = mp[(mp['var_name'] == 'bool_on') & (mp['type'] == 'i')]
    on_vars = np.asarray(on_rows.sort_values('time_step').index, int)
    if len(on_vars) != T:
        case.check('uc.on_variable_per_step', False, params=params, n_on=len(on_vars)); return
    MReff = MRs + k + m
    excluded = 0
    for p in itertools.product([0, 1], repeat=T):
        pa = np.array(p, float)
        fe = pinned_feasible(snap, on_vars, pa)
        if fe is None:
            case.inconc('reference solver undecided'); continue
        mo = admitted(list(p), MReff, MDs, Rs, Fs)
        if not mo:
            excluded += 1
        case.check('uc.pattern_admission', fe == mo, params=params, pattern=list(p), eao_admits=bool(fe), model_admits=bool(mo))
    case.stats['patterns'] += 2 ** T
    case.nontrivial = excluded > 0
    if ramp_in is None:
        output_ranges(rng, tier, case, snap, on_vars, params, T, stepf, prof, k, m, MReff, MDs, Rs, Fs, chp, mincap_steps)


def output_ranges(rng, tier, case, snap, on_vars, params, T, stepf, prof, k, m, MReff, MDs, Rs, Fs, chp, mincap_steps):
    """For sampled admitted patterns: the smallest and the largest virtual output (power + factor x heat) of every step that the real rows allow
    with the pattern pinned (HiGHS, start / shutdown flags left to the rows) against the documented range: 0 when off, the profile bounds at the
    j-th step after a start / before a shutdown, [min_cap, max_cap] x step length otherwise."""
    mp = snap.mapping
    d = mp[(mp['type'] == 'd') & (mp['var_name'] == 'disp')]
    pw = {int(t): int(i) for i, t, n_ in zip(d.index, d['time_step'], d['node']) if str(n_) == 'pw'}
    ht = {int(t): int(i) for i, t, n_ in zip(d.index, d['time_step'], d['node']) if str(n_) == 'ht'}
    if len(pw) != T:
        return
    A, lo, hi = solve.rows(snap)
    integ = np.zeros(len(snap.c)); integ[solve.bool_vars(snap)] = 1
    pats = [p for p in itertools.product([0, 1], repeat=T) if admitted(list(p), MReff, MDs, Rs, Fs) and any(p)]
    if not pats:
        return
    sel = [pats[int(i)] for i in rng.permutation(len(pats))[:(5 if tier == 'quick' else 10)]]
    s_ = [v * stepf for v in prof[0]] if prof else []; sd_ = [v * stepf for v in (prof[1] or [])] if prof else []
    for p in sel:
        l = snap.l.copy(); u = snap.u.copy()
        pa = np.array(p, float)
        l[on_vars] = np.maximum(l[on_vars], pa); u[on_vars] = np.minimum(u[on_vars], pa)
        bi = solve.bool_vars(snap)
        l[bi] = np.ceil(np.maximum(l[bi], 0.) - 1e-9); u[bi] = np.floor(np.minimum(u[bi], 1.) + 1e-9)
        # documented range per step
        want_lo = np.zeros(T); want_hi = np.zeros(T); known = np.ones(T, bool)
        seq = list(p)
        for t in range(T):
            if seq[t] == 0:
                continue
            want_lo[t] = mincap_steps[t]; want_hi[t] = 8.
        # runs
        t = 0
        while t < T:
            if seq[t] == 1:
                e = t
                while e < T and seq[e] == 1:
                    e += 1
                # start profile: the run starts at t (inside the horizon), or was started Rs steps before the horizon
                if t > 0 or Rs == 0:
                    for j in range(k):
                        if t + j < e:
                            want_lo[t + j] = s_[j]; want_hi[t + j] = s_[j]
                elif Rs < k:
                    for j in range(Rs, k):
                        if j - Rs < e:
                            want_lo[j - Rs] = s_[j]; want_hi[j - Rs] = s_[j]
                if e < T:
                    for j in range(m):
                        if e - 1 - j >= t:
                            want_lo[e - 1 - j] = sd_[j]; want_hi[e - 1 - j] = sd_[j]
                elif m:
                    known[max(t, T - m):T] = False          # the run goes on beyond the horizon: whether its last steps belong to a shutdown ramp is open
                t = e
            else:
                t += 1
        bad = None
        for t in range(T):
            if not known[t]:
                continue
            obj = np.zeros(len(snap.c)); obj[pw[t]] = 1.
            if chp and t in ht:
                obj[ht[t]] = 0.5
            rmin = solve.highs(obj, l, u, A, lo, hi, integ, 20., maximize_minus_c=True)
            rmax = solve.highs(-obj, l, u, A, lo, hi, integ, 20., maximize_minus_c=True)
            if rmin['status'] != 'optimal' or rmax['status'] != 'optimal':
                case.event('range_solver_undecided'); continue
            vmin = float(obj @ rmin['x']); vmax = float(obj @ rmax['x'])
            if abs(vmin - want_lo[t]) > 1e-6 * (1 + abs(want_lo[t])) or abs(vmax - want_hi[t]) > 1e-6 * (1 + abs(want_hi[t])):
                bad = {'step': t, 'smallest_output': vmin, 'largest_output': vmax, 'documented_range': [float(want_lo[t]), float(want_hi[t])]}
                break
        case.check('uc.output_range_for_pattern', bad is None, params=params, pattern=list(p), bad=bad)
        case.stats['range_patterns'] += 1


# -------------------------------------------------------------------------------------------------
# M6b / M6c
# -------------------------------------------------------------------------------------------------
def gen_uc_case(rng, with_profiles, dst_daily=False):
    # (a tenth of the horizons has only 1-3 steps - as short as a left-over split interval, shorter than ramp profiles and minimum times)
    g = gen.gen_grid(rng, freqs=['h', 'h', '30min', '2h', '15min'], steps=(6, 14) if rng.random() < 0.9 else (1, 3), tzs=[None, 'CET'], units=['h', 'h', 'd', 'min'])
    if dst_daily:
        for _ in range(20):
            g = gen.gen_grid(rng, dst=True, steps=(6, 12))
            if g['freq'] == 'd':
                break
    f = gen.UNIT_F[g['unit']]
    T = len(gen.grid_points(g))
    chp = rng.random() < 0.4
    fuel = rng.random() < 0.6
    nodes = ['pw'] + (['ht'] if chp else []) + (['fu'] if fuel else [])
    a = gen.gen_plant(rng, g, 'P', nodes, f, 'pc', chp=chp, simple=False, ramp_profiles=(0.75 if with_profiles else False))      # 'pc': the plant's own variable generation cost
    if dst_daily:
        # calendar-day steps of 23 / 24 / 25 h: what is tied to the step LENGTH (capacity, running consumption, running costs) is judged with the real
        # lengths; ramps and durations in steps are not sharply defined on unequal steps and are left out of this family
        for kf in ('ramp', 'last_dispatch', 'min_runtime', 'min_downtime', 'time_already_running', 'time_already_off', 'start_ramp_lower_bounds', 'start_ramp_upper_bounds',
                   'shutdown_ramp_lower_bounds', 'shutdown_ramp_upper_bounds', 'ramp_freq', 'start_ramp_lower_bounds_heat', 'start_ramp_upper_bounds_heat',
                   'shutdown_ramp_lower_bounds_heat', 'shutdown_ramp_upper_bounds_heat'):
            a.pop(kf, None)
        if fuel and rng.random() < 0.7:
            a['consumption_if_on'] = gen.r2(gen.pick(rng, [0.1, 0.5]) * f)
    HALF = {'h': '30min', '2h': 'h', '30min': '15min'}
    if a.get('start_ramp_lower_bounds') and not dst_daily and g['freq'] in HALF and a.get('ramp_freq') == g['freq'] and rng.random() < 0.3:
        # the profiles given in a FINER frequency than the grid (every value twice at half the step): EAO converts them to the same per-step profile
        for kf in [k for k in a if k.startswith(('start_ramp_', 'shutdown_ramp_'))]:
            a[kf] = [v for v in a[kf] for _ in range(2)]
        a['ramp_freq'] = HALF[g['freq']]
    COARSER = {'15min': ['30min', 'h'], '30min': ['h'], 'h': ['2h']}
    if a.get('start_ramp_lower_bounds') and not dst_daily and g['freq'] in COARSER and a.get('ramp_freq') == g['freq'] and rng.random() < 0.3:
        # the profiles given in a COARSER frequency than the grid (e.g. per hour on a 15-minute grid): EAO interpolates between the profile points
        a['ramp_freq'] = gen.pick(rng, COARSER[g['freq']])
    if rng.random() < 0.12:
        # a minimum runtime / downtime that reaches beyond the horizon
        st_ = float(pd.Timedelta(to_offset(g['freq'])) / pd.Timedelta(1, g['unit']))
        if a.get('time_already_running'):
            a['min_runtime'] = gen.r2(st_ * (T + int(rng.integers(1, 4))))
        elif a.get('time_already_off'):
            a['min_downtime'] = gen.r2(st_ * (T + int(rng.integers(1, 4))))
    if a['min_cap'] == 0:
        a['min_cap'] = gen.r2(1. * f)
    if a.get('start_ramp_lower_bounds') and rng.random() < 0.6:
        # a high minimum output: the profile values lie below it, so following a profile is attractive whenever prices are bad
        a['min_cap'] = gen.r2(0.7 * a['max_cap'])
        if not a.get('min_downtime') and rng.random() < 0.6:
            a['min_downtime'] = gen.r2(float(pd.Timedelta(to_offset(g['freq'])) / pd.Timedelta(1, g['unit'])) * int(rng.integers(2, 4)))
    a['extra_costs'] = gen.pick(rng, [0., 0.5])
    if a.get('start_ramp_lower_bounds') and not dst_daily and T >= 6 and rng.random() < 0.3:
        # a minimum output that changes in the course of the horizon (interval data): profile bounds and capacity bounds are per step
        mid_ = gen.naive_str(gen.grid_points(g)[int(rng.integers(2, T - 1))])
        if gen.local_ok(mid_, g.get('tz')):
            far0 = str(pd.Timestamp(g['start']).normalize() - pd.Timedelta(days=30) + pd.Timedelta(hours=12)); far1 = str(pd.Timestamp(g['end']).normalize() + pd.Timedelta(days=30, hours=12))
            lv = a['min_cap']
            a['min_cap'] = {'start': [far0, mid_], 'end': [mid_, far1], 'values': [lv, gen.r2(lv * gen.pick(rng, [0.5, 0.6, 1.2]))] if rng.random() < 0.7 else [gen.r2(lv * 0.5), lv]}
            if max(a['min_cap']['values']) > a['max_cap']:
                a['min_cap'] = lv
    assets = [a, {'type': 'SimpleContract', 'name': 'mkt_pw', 'nodes': ['pw'], 'price': 'pp', 'min_cap': -50. * f, 'max_cap': 50. * f, 'extra_costs': 0.}]
    if chp:
        assets.append({'type': 'SimpleContract', 'name': 'mkt_ht', 'nodes': ['ht'], 'price': 'ph', 'min_cap': -50. * f, 'max_cap': 0., 'extra_costs': 0.})
    if fuel:
        assets.append({'type': 'SimpleContract', 'name': 'mkt_fu', 'nodes': ['fu'], 'price': 'pf', 'min_cap': 0., 'max_cap': 500. * f, 'extra_costs': 0.})
    pr = {}
    base = 20 + 15 * np.sin(np.arange(T) * rng.uniform(0.5, 1.5) + rng.uniform(0, 3)) + rng.normal(0, 3, T)
    if T >= 4 and rng.random() < 0.35:
        # one or two very bad steps in the middle of good ones: the plant would like to dip below its minimum output without paying for a real stop
        base = np.abs(base) + 10.
        for t_ in rng.permutation(np.arange(1, T - 1))[:int(rng.integers(1, 3))]:
            base[int(t_)] = -float(rng.uniform(50, 200))
    pr['pp'] = [float(x) for x in np.round(base, 2)]
    pr['pc'] = [float(x) for x in np.round(np.abs(rng.normal(3, 1, T)), 2)]
    pr['ph'] = [float(x) for x in np.round(np.abs(rng.normal(8, 4, T)), 2)]
    pr['pf'] = [float(x) for x in np.round(np.abs(rng.normal(6, 2, T)) + 1, 2)]
    if rng.random() < 0.5:
        assets = assets[::-1]
    return {'grid': g, 'assets': assets, 'prices': pr}


def steps_of(v, dur_to_steps):
    return int(np.ceil(dur_to_steps(v) - 1e-9))


def run_m6bc(rng, tier, case, reference):
    dst_daily = (not reference) and rng.random() < 0.12
    spec = gen.strip_private(gen_uc_case(rng, with_profiles=not reference, dst_daily=dst_daily))
    if dst_daily:
        case.feature('daily_steps_over_dst_switch')
    a = [x for x in spec['assets'] if x['name'] == 'P'][0]
    g = spec['grid']
    a_given = a
    rf_ = a.get('ramp_freq')
    if a.get('start_ramp_lower_bounds') and rf_ and rf_ != g['freq']:
        # profiles in a finer frequency whose values repeat q-fold are the per-step profile given by every q-th value (the monitors below read that one)
        ratio = float(pd.Timedelta(to_offset(g['freq'])) / pd.Timedelta(to_offset(rf_)))
        q = int(round(ratio))
        keys_ = [k for k in a if k.startswith(('start_ramp_', 'shutdown_ramp_'))]
        if q >= 2 and abs(ratio - q) < 1e-12 and all(len(a[k]) % q == 0 and all(a[k][i] == a[k][i - i % q] for i in range(len(a[k]))) for k in keys_):
            a = dict(a)
            for k in keys_:
                a[k] = a[k][::q]
            a['ramp_freq'] = g['freq']
            case.feature('profile_in_finer_frequency')
    if a.get('start_ramp_lower_bounds') and rf_ and rf_ != g['freq']:
        ratio_c = float(pd.Timedelta(to_offset(rf_)) / pd.Timedelta(to_offset(g['freq'])))
        qc = int(round(ratio_c))
        if qc >= 2 and abs(ratio_c - qc) < 1e-12 and a is a_given:
            # profiles in a coarser frequency: the k-th profile value is reached at the END of the k-th profile interval, the grid steps in between follow the
            # straight line between the profile points (the first interval stays at the first value) - so the ramp ends exactly on its last value
            a = dict(a)
            for k in [k for k in a if k.startswith(('start_ramp_', 'shutdown_ramp_'))]:
                K_ = len(a[k])
                a[k] = [float(v) for v in np.interp(np.arange(1, K_ * qc + 1), (np.arange(K_) + 1) * qc, np.asarray(a[k], float))]
            a['ramp_freq'] = g['freq']
            case.feature('profile_in_coarser_frequency')
    ck = Clock(g)
    T = ck.T
    step = float(ck.dt[0])
    case.feature('m6c' if reference else 'm6b', 'chp' if a['type'] == 'CHPAsset' else 'plant', 'fuel' if ('fu' in a['nodes']) else 'no_fuel', 'freq:%s/%s' % (g['freq'], g['unit']))
    for kf in ('ramp', 'min_runtime', 'min_downtime', 'start_costs', 'running_costs', 'start_fuel', 'consumption_if_on', 'start_ramp_lower_bounds', 'shutdown_ramp_lower_bounds', 'last_dispatch',
               'time_already_running', 'time_already_off'):
        if a.get(kf):
            case.feature('param:' + kf)
    case.key = env.spec_key(spec); case.sample = gen.abbreviate(spec); case.sample['plant'] = {k: v for k, v in a.items() if k not in ('type', 'name')}; case.spec = spec
    r = flow.run_portfolio(spec)
    if not r.ok:
        if isinstance(r.error, AssertionError):
            case.reject(flow.describe_error(r)); return
        case.check('uc.setup_works', False, plant=a, error=flow.describe_error(r)); return
    if not r.solved:
        if reference and r.res != 'inaccurate':
            ref = reference_uc(spec, ck)
            if ref is not None and ref['status'] in ('optimal', 'infeasible'):
                case.check('uc.feasibility_agrees_with_reference', ref['status'] == 'infeasible', plant={k: a[k] for k in a if k not in ('type', 'name', 'nodes', 'price')},
                           freq=g['freq'], unit=g['unit'], eao=str(r.res), reference=ref['status'], reference_value=ref['value'])
                return
        case.inconc('not solved: ' + str(r.res)); return
    x = np.asarray(r.res.x, float)
    m = r.op.mapping
    mine = m[m['asset'] == 'P']
    def series(var_name, node=None):
        rows = mine[(mine['var_name'] == var_name)]
        if node is None:
            rows = rows[rows['node'].isnull()]
        else:
            rows = rows[rows['node'] == node]
        out = np.full(T, np.nan)
        for i, t in zip(rows.index, rows['time_step']):
            out[int(t)] = x[int(i)]
        return out
    power = series('disp', 'pw')
    chp = a['type'] == 'CHPAsset'
    heat = series('disp', 'ht') if chp else np.zeros(T)
    on = series('bool_on'); start = series('bool_start'); shut = series('bool_shutdown')
    has_on = not np.isnan(on).all(); has_start = not np.isnan(start).all()
    cf = a.get('conversion_factor_power_heat', 1.) if chp else 0.
    v = power + cf * heat
    who = {'plant': {k: a[k] for k in a if k not in ('type', 'name', 'nodes', 'price')}, 'freq': g['freq'], 'unit': g['unit']}
    mn = ck.vec(a['min_cap'], spec['prices']) * ck.dt; mx = a['max_cap'] * ck.dt
    if isinstance(a['min_cap'], dict):
        case.feature('time_varying_min_cap')
    tol = 1e-5 * (1 + mx.max())
    switches = 0
    k_s = len(a.get('start_ramp_lower_bounds') or []); k_d = len(a.get('shutdown_ramp_lower_bounds') or [])
    if not has_on:
        # no on-variables (no min capacity etc.): capacity bounds only
        case.check('uc.capacity_when_on', bool(np.all(v >= -tol) and np.all(v <= mx + tol)), **who)
        on_i = (v > tol).astype(int)
    else:
        on_i = np.round(on).astype(int)
        switches = int(np.abs(np.diff(on_i)).sum())
        off = on_i == 0
        case.check('uc.off_means_zero', bool(np.all(np.abs(v[off]) <= tol) and np.all(np.abs(heat[off]) <= tol)), nonvacuous=off.any(), **who, v_off=v[off][:5].tolist())
        # ramp-profile steps: j-th step after a start, j-th step before a shutdown
        prof_lo = np.full(T, np.nan); prof_hi = np.full(T, np.nan)
        conv = step     # ramp_freq = main unit or grid freq: the generator uses one value per step (ramp_freq=None => main unit)
        if k_s or k_d:
            rf = a.get('ramp_freq') or g['unit']
            same = abs(float(pd.Timedelta(to_offset(rf)) / pd.Timedelta(to_offset(g['freq']))) - 1.) < 1e-12
            if not same:
                prof_known = False
            else:
                prof_known = True
                st_i = np.round(np.nan_to_num(start)).astype(int); sh_i = np.round(np.nan_to_num(shut)).astype(int)
                hprof_lo = np.full(T, np.nan); hprof_hi = np.full(T, np.nan)
                for t in range(T):
                    for j in range(k_s):
                        if t - j >= 0 and st_i[t - j] == 1:
                            prof_lo[t] = a['start_ramp_lower_bounds'][j] * step; prof_hi[t] = a['start_ramp_upper_bounds'][j] * step
                            if a.get('start_ramp_upper_bounds_heat'):
                                hprof_lo[t] = a['start_ramp_lower_bounds_heat'][j] * step; hprof_hi[t] = a['start_ramp_upper_bounds_heat'][j] * step
                    for j in range(k_d):
                        if t + j + 1 < T and sh_i[t + j + 1] == 1:
                            prof_lo[t] = a['shutdown_ramp_lower_bounds'][j] * step; prof_hi[t] = a['shutdown_ramp_upper_bounds'][j] * step
                            if a.get('shutdown_ramp_upper_bounds_heat'):
                                hprof_lo[t] = a['shutdown_ramp_lower_bounds_heat'][j] * step; hprof_hi[t] = a['shutdown_ramp_upper_bounds_heat'][j] * step
                inh = ~np.isnan(hprof_lo)
                if inh.any():
                    case.check('uc.heat_ramp_profile_bounds', bool(np.all(heat[inh] >= hprof_lo[inh] - 1e-5 * (1 + mx.max())) and np.all(heat[inh] <= hprof_hi[inh] + 1e-5 * (1 + mx.max()))),
                               **who, heat=heat[inh][:6].tolist(), lo=hprof_lo[inh][:6].tolist(), hi=hprof_hi[inh][:6].tolist())
        else:
            prof_known = True
        inprof = ~np.isnan(prof_lo)
        normal = (on_i == 1) & ~inprof
        if prof_known:
            case.check('uc.capacity_when_on', bool(np.all(v[normal] >= mn[normal] - tol) and np.all(v[normal] <= mx[normal] + tol)), nonvacuous=normal.any(), **who,
                       v=v[normal][:6].tolist(), min=mn[normal][:3].tolist(), max=mx[normal][:3].tolist())
            if inprof.any():
                okp = bool(np.all(v[inprof] >= prof_lo[inprof] - tol) and np.all(v[inprof] <= prof_hi[inprof] + tol))
                case.check('uc.ramp_profile_bounds', okp, **who, v=v[inprof][:6].tolist(), lo=prof_lo[inprof][:6].tolist(), hi=prof_hi[inprof][:6].tolist())
        # start flags
        if has_start:
            st = np.round(start).astype(int)
            prev = np.concatenate(([1 if a.get('time_already_running', 0) > 0 else 0], on_i[:-1]))
            need = np.maximum(on_i - prev, 0)
            case.check('uc.start_flag', bool(np.all(st >= need)), nonvacuous=need.any(), **who, on=on_i.tolist(), start=st.tolist())
            costly = (a.get('start_costs', 0) or 0) > 0 or ((a.get('start_fuel', 0) or 0) > 0 and 'fu' in a['nodes'] and min(spec['prices']['pf']) > 0)
            # (with a start or shutdown profile the flag switches the capacity and ramp rows to the profile: a start flagged while the plant keeps
            # running would let it dip below min_cap, so the flag must be exact there as well)
            if costly or k_s or k_d:
                case.check('uc.start_flag_exact_when_costly', bool(np.array_equal(st, need)), nonvacuous=True, **who, on=on_i.tolist(), start=st.tolist())
        # ramp
        if a.get('ramp') is not None and not (k_s or k_d):
            rp = a['ramp'] * step
            dv = np.abs(np.diff(v))
            case.check('uc.ramp', bool(np.all(dv <= rp + tol)), nonvacuous=bool(len(dv) and dv.max() > 1e-6), **who, worst_change=float(dv.max()) if len(dv) else 0., ramp=rp, v=v[:8].tolist())
            ld = (a.get('last_dispatch', 0.) or 0.) * step
            if a.get('time_already_running', 0) > 0:
                case.check('uc.first_step_ramp', abs(v[0] - ld) <= rp + tol, nonvacuous=True, **who, v0=float(v[0]), last_dispatch=ld, ramp=rp, direction='up' if v[0] > ld else 'down')
            else:
                case.check('uc.first_step_ramp', v[0] <= ld + rp + tol, nonvacuous=v[0] > tol, **who, v0=float(v[0]), last_dispatch=ld, ramp=rp, direction='up')
        if a.get('ramp') is not None and (k_s or k_d) and prof_known and has_start:
            # with profiles: every increase OUTSIDE the steps of a start profile respects the ramp (the first step after the profile included)
            rp = a['ramp'] * step
            st_i2 = np.round(np.nan_to_num(start)).astype(int)
            in_start_prof = np.zeros(T, bool)
            for t in range(T):
                for j in range(max(k_s, 1)):
                    if t - j >= 0 and st_i2[t - j] == 1:
                        in_start_prof[t] = True
            up = np.array([v[t] - v[t - 1] if (t >= 1 and on_i[t] == 1 and not in_start_prof[t]) else 0. for t in range(T)])
            case.check('uc.ramp_up_outside_start_profile', bool(np.all(up <= rp + tol)), nonvacuous=bool(up.max() > 1e-6), **who, worst_increase=float(up.max()), ramp=rp, v=v[:10].tolist(),
                       on=on_i.tolist(), start=st_i2.tolist())
        # pattern admitted by the run-length model
        to_steps = lambda d: int(np.ceil(d / step - 1e-9))
        MR = to_steps(a.get('min_runtime', 0) or 0) + k_s + k_d; MD = to_steps(a.get('min_downtime', 0) or 0)
        R = to_steps(a.get('time_already_running', 0) or 0); F = to_steps(a.get('time_already_off', 0) or 0)
        include_start = MR > 1 or (a.get('start_costs', 0) or 0) != 0 or k_s or k_d or ((a.get('start_fuel', 0) or 0) != 0 and 'fu' in a['nodes'])
        MR_eff = MR if include_start else 0
        if prof_known:      # (profiles given in another frequency than the grid's are converted by EAO: their length in steps is not the list length)
            case.check('uc.pattern_respects_runtime_downtime', admitted(on_i.tolist(), MR_eff, MD, R, F), nonvacuous=(MR_eff > 1 or MD > 1) and switches > 0, **who, on=on_i.tolist(),
                       min_runtime_steps=MR_eff, min_downtime_steps=MD, running_steps=R, off_steps=F)
    # heat share
    if chp and a.get('max_share_heat') is not None:
        case.check('uc.heat_share', bool(np.all(heat <= a['max_share_heat'] * power + tol)), nonvacuous=bool(heat.max() > tol), **who, heat=heat[:6].tolist(), power=power[:6].tolist())
    # fuel balance at the fuel node (dispatch output)
    if 'fu' in a['nodes']:
        col = 'P (fu)'
        got = r.out['dispatch'][col].values.astype(float)
        eff = a.get('fuel_efficiency', 1.)
        want = -(v / eff + (a.get('consumption_if_on', 0.) or 0.) * ck.dt * (np.nan_to_num(on) if has_on else 0.) + (a.get('start_fuel', 0.) or 0.) * (np.nan_to_num(start) if has_start else 0.))
        case.check('uc.fuel_balance', bool(np.abs(got - want).max() <= 1e-5 * (1 + np.abs(want).max())), nonvacuous=bool(np.abs(want).max() > tol), **who, got=got[:6].tolist(), want=want[:6].tolist())
    if reference:
        ref = reference_uc(spec, ck)
        if ref is None:
            case.inconc('reference does not model this configuration')
        else:
            sol = ref
            if sol['status'] != 'optimal':
                jump = bool(a.get('ramp') is not None and (a.get('time_already_running', 0) or 0) > 0 and
                            v[0] - (a.get('last_dispatch', 0.) or 0.) * step > a['ramp'] * step + tol)
                case.check('uc.feasibility_agrees_with_reference', False, **who, eao='solved', eao_value=float(r.res.value), reference=sol['status'],
                           eao_first_step_jumps_up_beyond_ramp=jump)
            else:
                V = float(r.res.value)
                jump = bool(a.get('ramp') is not None and (a.get('time_already_running', 0) or 0) > 0 and
                            v[0] - (a.get('last_dispatch', 0.) or 0.) * step > a['ramp'] * step + tol)
                case.check('uc.value_equals_reference', abs(V - sol['value']) <= solve.TOL_VAL_MIP * (1 + abs(V)), nonvacuous=True, **who, eao=V, reference=sol['value'], on=on_i.tolist(),
                           eao_first_step_jumps_up_beyond_ramp=jump)
    case.nontrivial = switches > 0 or bool(np.abs(v).max() > tol)


def reference_uc(spec, ck):
    """Textbook unit-commitment MILP written from the documentation (no ramp profiles). Variables per step: power, heat, on, start."""
    import scipy.sparse as sp
    a = [x for x in spec['assets'] if x['name'] == 'P'][0]
    if a.get('start_ramp_lower_bounds') or a.get('shutdown_ramp_lower_bounds') or a.get('min_take') or a.get('max_take'):
        return None
    T = ck.T; step = float(ck.dt[0])
    chp = a['type'] == 'CHPAsset'; fuel = 'fu' in a['nodes']
    pr = {k: np.asarray(v, float) for k, v in spec['prices'].items()}
    cf = a.get('conversion_factor_power_heat', 1.) if chp else 0.
    nv = 0
    def new(n):
        nonlocal nv
        i = np.arange(nv, nv + n); nv += n; return i
    P_ = new(T); H_ = new(T) if chp else None; ON = new(T); ST = new(T)
    Mp = new(T); Mh = new(T) if chp else None; Mf = new(T) if fuel else None     # market flows
    c = np.zeros(nv); lb = np.zeros(nv); ub = np.zeros(nv); integ = np.zeros(nv)
    price = pr[a['price']] + (a.get('extra_costs', 0.) or 0.)
    mn = ck.vec(a['min_cap'], spec['prices']) * ck.dt; mx = a['max_cap'] * ck.dt
    c[P_] = price; ub[P_] = mx
    if chp:
        c[H_] = cf * price
        ub[H_] = (a['max_share_heat'] * mx) if a.get('max_share_heat') is not None else mx / cf
    ub[ON] = 1; ub[ST] = 1; integ[ON] = 1; integ[ST] = 1
    c[ON] = (a.get('running_costs', 0.) or 0.) * ck.dt
    c[ST] = (a.get('start_costs', 0.) or 0.)
    mk = {x['name']: x for x in spec['assets']}
    lb[Mp] = mk['mkt_pw']['min_cap'] * ck.dt; ub[Mp] = mk['mkt_pw']['max_cap'] * ck.dt; c[Mp] = pr['pp']
    if chp:
        lb[Mh] = mk['mkt_ht']['min_cap'] * ck.dt; ub[Mh] = mk['mkt_ht']['max_cap'] * ck.dt; c[Mh] = pr['ph']
    if fuel:
        lb[Mf] = mk['mkt_fu']['min_cap'] * ck.dt; ub[Mf] = mk['mkt_fu']['max_cap'] * ck.dt; c[Mf] = pr['pf']
    rows = []; lo = []; hi = []
    def row(co, l, h):
        rows.append(co); lo.append(l); hi.append(h)
    to_steps = lambda d: int(np.ceil(d / step - 1e-9))
    MR = to_steps(a.get('min_runtime', 0) or 0); MD = to_steps(a.get('min_downtime', 0) or 0)
    R = to_steps(a.get('time_already_running', 0) or 0); F = to_steps(a.get('time_already_off', 0) or 0)
    on_prev = 1 if R > 0 else 0
    ramp = a.get('ramp'); ld = (a.get('last_dispatch', 0.) or 0.) * step
    eff = a.get('fuel_efficiency', 1.)
    for t in range(T):
        vt = {P_[t]: 1.}
        if chp: vt[H_[t]] = cf
        # capacity coupling
        co = dict(vt); co[ON[t]] = -mn[t]; row(co, 0., np.inf)
        co = dict(vt); co[ON[t]] = -mx[t]; row(co, -np.inf, 0.)
        # start definition: start_t >= on_t - on_(t-1)
        co = {ST[t]: 1., ON[t]: -1.}
        if t > 0:
            co[ON[t - 1]] = 1.; row(co, 0., np.inf)
        else:
            row(co, -on_prev, np.inf)
        # a start needs the unit to be on and to have been off
        row({ST[t]: 1., ON[t]: -1.}, -np.inf, 0.)
        if t > 0:
            row({ST[t]: 1., ON[t - 1]: 1.}, -np.inf, 1.)
        elif on_prev:
            ub[ST[0]] = 0
        # heat share
        if chp and a.get('max_share_heat') is not None:
            row({H_[t]: 1., P_[t]: -a['max_share_heat']}, -np.inf, 0.)
        # balances
        row({P_[t]: 1., Mp[t]: 1.}, 0., 0.)
        if chp:
            row({H_[t]: 1., Mh[t]: 1.}, 0., 0.)
        if fuel:
            co = {Mf[t]: 1., P_[t]: -1. / eff, ON[t]: -(a.get('consumption_if_on', 0.) or 0.) * ck.dt[t], ST[t]: -(a.get('start_fuel', 0.) or 0.)}
            if chp: co[H_[t]] = -cf / eff
            row(co, 0., 0.)
        # ramp
        if ramp is not None:
            rp = ramp * step
            if t > 0:
                co = dict(vt); co[P_[t - 1]] = co.get(P_[t - 1], 0.) - 1.
                if chp: co[H_[t - 1]] = -cf
                row(co, -rp, rp)
            else:
                if R > 0:
                    row(dict(vt), ld - rp, ld + rp)
                else:
                    row(dict(vt), -np.inf, ld + rp)
    # min up / min down incl. history (run-length formulation by enumeration of short runs)
    # on-run starting at t (start_t = 1) must last MR steps (unless cut by the horizon)
    if MR > 1:
        for t in range(T):
            for j in range(1, MR):
                if t + j < T:
                    row({ON[t + j]: 1., ST[t]: -1.}, 0., np.inf)
        if R > 0 and R < MR:
            for j in range(MR - R):
                if j < T: lb[ON[j]] = 1
    if MD > 1:
        # shutdown at t (on_(t-1)=1, on_t=0) => off for MD steps
        for t in range(T):
            for j in range(1, MD):
                if t + j < T:
                    co = {ON[t + j]: 1., ON[t]: -1.}
                    if t > 0:
                        co[ON[t - 1]] = 1.; row(co, -np.inf, 1.)
                    else:
                        row(co, -np.inf, 1. - on_prev)
        if F > 0 and F < MD:
            for j in range(MD - F):
                if j < T: ub[ON[j]] = 0
    A = sp.lil_matrix((len(rows), nv))
    for i, co in enumerate(rows):
        for k, v_ in co.items():
            A[i, k] = v_
    # does EAO model on/start variables at all? (documented: min_cap == 0 and no start features => plain capacity bounds). The generator uses min_cap > 0.
    return solve.highs(c, lb, ub, A.tocsr(), np.array(lo), np.array(hi), integ, time_limit=60.)


def run_case(rng, tier, case):
    r = rng.random()
    if r < 0.4:
        run_m6a(rng, tier, case)
    elif r < 0.6:
        run_m6bc(rng, tier, case, reference=False)      # with start / shutdown ramp profiles: trace clauses only
    else:
        run_m6bc(rng, tier, case, reference=True)       # trace clauses + reference optimum


def _is_f9(v, rec):
    # plant already running (beyond its start ramp) with ramp: the first-step UPWARD ramp row is vacuous (<= last_dispatch + max_cap)
    running = (v.get('plant') or {}).get('time_already_running', 0) > 0
    if v.get('clause') == 'uc.first_step_ramp' and v.get('direction') == 'up' and running:
        return True
    # the same mechanism seen through the reference optimum: EAO's solution uses the vacuous first-step row and is better than the reference
    if (v.get('clause') == 'uc.value_equals_reference' and running and v.get('eao_first_step_jumps_up_beyond_ramp') is True
            and isinstance(v.get('reference'), float) and v.get('eao', 0) > v.get('reference')):
        return True
    # ... or through feasibility: the reference (which enforces the first-step ramp) has no feasible point, EAO's solution jumps up in step 0
    return (v.get('clause') == 'uc.feasibility_agrees_with_reference' and running and v.get('eao') == 'solved' and v.get('reference') == 'infeasible'
            and v.get('eao_first_step_jumps_up_beyond_ramp') is True)


CLASSIFIERS = {'c06_first_step_up_ramp_when_running': _is_f9}
