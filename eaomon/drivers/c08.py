"""C08 Only what lies inside the horizon and inside an asset's window matters."""
import copy
import numpy as np
import pandas as pd
from .. import env, attach, gen, flow, solve
from ..spec import Clock, UNIT_NS, local_ok
from ..canon import Snap, vec_diff, mat_diff, nodal_row_index

PROPERTY = 'C08'
gen.OFFGRID = 0.12      # some asset windows start or end strictly between two grid points
CASES = {'quick': 432, 'thorough': 3456}
BUDGET_S = {'quick': 240, 'thorough': 2400}
RULE = ('case = a random portfolio P (windows in every placement, take periods partly outside the horizon) and P+ = P plus one element lying '
        'wholly outside the horizon (an asset of any class - also with coarse frequency -, an extra take period, orders) inserted first / in the '
        'middle / last; both are set up and solved through the real code (a third via split set-up). Clauses: (a) every mapping row and every '
        'non-zero dispatch of an asset lies in its [start,end) window clipped to the horizon (windows from an independent UTC clock); (b) the '
        'problem of P+ restricted to the variables of P\'s assets equals the problem of P exactly, extra variables are inert, optimal values equal; '
        '(c) each take row\'s right-hand side equals v*covered/(e-s). Non-trivial: P has >=1 windowed asset or take period with flow; distinct = spec hashes.')
ASSUMPTIONS = ['window membership of a step is decided by its start point (as documented for interval data)',
               'value tolerance 1e-5 (MIP 2e-4) relative; structural comparison exact']
MIN_NONVACUOUS = {'quick': {'window.mapping_rows_inside': 500, 'window.dispatch_zero_outside': 150, 'inert.problem_unchanged': 225, 'inert.value_unchanged': 175, 'take.prorated_rhs': 62},
                  'thorough': {'window.mapping_rows_inside': 4000, 'inert.problem_unchanged': 1500, 'take.prorated_rhs': 400}}


def rows_diff(a, b, keep):
    """a: problem of P; b: problem of P+; keep: columns of b that belong to P's assets."""
    import scipy.sparse as sp
    A1 = a.A.tocsr() if a.A is not None else sp.csr_matrix((0, len(a.c)))
    A2 = b.A.tocsr()[:, keep] if b.A is not None else sp.csr_matrix((0, len(keep)))
    N1 = nodal_row_index(a); N2 = nodal_row_index(b)
    n1 = [i for i in range(len(a.cType or '')) if i not in set(N1)]; n2 = [i for i in range(len(b.cType or '')) if i not in set(N2)]
    # rows that belong only to the out-of-horizon element are all zero: drop them on the P+ side
    full2 = b.A.tocsr() if b.A is not None else A2
    n2 = [i for i in n2 if abs(full2[i, :]).sum() != 0 or b.b[i] != 0]
    n1 = [i for i in n1 if abs(A1[i, :]).sum() != 0 or a.b[i] != 0]
    if len(n1) != len(n2):
        return 'number of asset rows differs: %d vs %d' % (len(n1), len(n2))
    if n1:
        d = mat_diff(A1[n1, :], A2[n2, :], 0.)
        if d:
            return 'asset rows: ' + d
        if vec_diff(a.b[n1], b.b[n2], 0.) or [a.cType[i] for i in n1] != [b.cType[i] for i in n2]:
            return 'asset rows: b / cType differ'
    k1 = {(int(t), str(n)): i for i, (t, n) in zip(N1, a.map_nodal_restr or [])}
    k2 = {(int(t), str(n)): i for i, (t, n) in zip(N2, b.map_nodal_restr or [])}
    if set(k1) != set(k2):
        return 'nodal rows for different (step, node) pairs: %s' % sorted(set(k1) ^ set(k2))[:4]
    if k1:
        order = sorted(k1)
        d = mat_diff(A1[[k1[k] for k in order], :], A2[[k2[k] for k in order], :], 0.)
        if d:
            return 'nodal rows: ' + d
    return None


def outside_window(rng, g):
    s, e, k = gen.gen_window(rng, g, kinds=['before', 'after', 'empty'])
    return s, e, k


def inert_element(rng, spec):
    """-> (spec+, description) adds one element wholly outside the horizon."""
    g = spec['grid']; f = gen.UNIT_F[g['unit']]
    sp = copy.deepcopy(spec)
    nodes = sorted({n for a in spec['assets'] for n in (a.get('nodes') or [])})
    kind = gen.pick(rng, ['contract', 'simplecontract', 'transport', 'storage', 'multi', 'orderbook', 'order_in_book', 'order_in_book', 'take', 'take', 'take', 'take', 'take', 'coarse', 'plant', 'scaled', 'exttransport'])
    s, e, place = outside_window(rng, g)
    name = 'inert'
    a = None
    if kind in ('contract', 'simplecontract'):
        a = {'type': 'Contract' if kind == 'contract' else 'SimpleContract', 'name': name, 'nodes': [gen.pick(rng, nodes)], 'price': sorted(spec['prices'])[0],
             'min_cap': -5. * f, 'max_cap': 5. * f, 'extra_costs': gen.pick(rng, [0., 1.]), 'start': s, 'end': e}
    elif kind in ('transport', 'exttransport') and len(nodes) > 1:
        a = {'type': 'Transport' if kind == 'transport' else 'ExtendedTransport', 'name': name, 'nodes': nodes[:2], 'min_cap': 0., 'max_cap': 9. * f, 'efficiency': 0.9, 'start': s, 'end': e,
             'costs_time_series': sorted(spec['prices'])[0] if rng.random() < 0.5 else None}
    elif kind == 'storage':
        a = {'type': 'Storage', 'name': name, 'nodes': [gen.pick(rng, nodes)], 'size': 9., 'cap_in': 2. * f, 'cap_out': 2. * f, 'start_level': 3., 'end_level': 1.,
             'eff_in': 0.9, 'inflow': 0.1 * f, 'start': s, 'end': e}
    elif kind == 'multi' and len(nodes) > 1:
        a = {'type': 'MultiCommodityContract', 'name': name, 'nodes': nodes[:2], 'price': sorted(spec['prices'])[0], 'min_cap': 1. * f, 'max_cap': 5. * f,
             'factors_commodities': [1., -0.5], 'start': s, 'end': e}
    elif kind == 'coarse' and g['freq'] in gen.COARSE_OF:
        a = {'type': gen.pick(rng, ['SimpleContract', 'Contract']), 'name': name, 'nodes': [gen.pick(rng, nodes)], 'price': sorted(spec['prices'])[0],
             'min_cap': 1. * f, 'max_cap': 5. * f, 'extra_costs': gen.pick(rng, [0., 1.]), 'start': s, 'end': e, 'freq': gen.pick(rng, gen.COARSE_OF[g['freq']])}
    elif kind == 'plant':
        a = {'type': 'Plant', 'name': name, 'nodes': [gen.pick(rng, nodes)], 'price': sorted(spec['prices'])[0], 'min_cap': 1. * f, 'max_cap': 5. * f, 'start_costs': 3.,
             'start': s, 'end': e}
    elif kind == 'scaled':
        # a scaled asset whose own lifetime lies outside the horizon (the base with the same window, or without one of its own)
        own = rng.random() < 0.5
        a = {'type': 'ScaledAsset', 'name': name, 'base': {'type': 'SimpleContract', 'name': 'inert_base', 'nodes': [gen.pick(rng, nodes)], 'price': sorted(spec['prices'])[0],
             'min_cap': gen.pick(rng, [1., -2.]) * f, 'max_cap': 5. * f, 'start': s if own else None, 'end': e if own else None},
             'min_scale': gen.pick(rng, [0., 1.]), 'max_scale': 2., 'fix_costs': gen.pick(rng, [1., 0.]), 'start': s, 'end': e}
    elif kind == 'orderbook':
        ob = gen.gen_orderbook(rng, g, name, gen.pick(rng, nodes), n_orders=int(rng.integers(1, 5)))
        ck = Clock(g)
        keep = [k for k in range(len(ob['orders']['start'])) if not [t for t in range(ck.T) if ck.ts(ob['orders']['start'][k]) <= ck.points[t] < ck.ts(ob['orders']['end'][k])]]
        ob['orders'] = {kk: [vv[k] for k in keep] for kk, vv in ob['orders'].items()}
        if keep:
            a = ob
    elif kind == 'order_in_book':
        books = [x for x in sp['assets'] if x['type'] == 'OrderBook' and len(x['orders']['start']) >= 1]
        if books and s is not None and e is not None and s != e:
            # an expired / later order listed BEFORE or BETWEEN the orders of an existing book
            bk = books[0]
            pos_ = int(rng.integers(0, len(bk['orders']['start'])))
            for kk, vv in (('start', s), ('end', e), ('capa', 2.), ('price', 11.)):
                bk['orders'][kk] = list(bk['orders'][kk][:pos_]) + [vv] + list(bk['orders'][kk][pos_:])
            return sp, 'order_in_book_' + place, ('__order__', bk['name'], pos_)
    elif kind == 'take':
        cands = [x for x in sp['assets'] if x['type'] in ('Contract', 'ExtendedTransport', 'MultiCommodityContract') and s is not None and e is not None and s != e]
        if cands:
            with_take = [x for x in cands if x.get('min_take') or x.get('max_take')]
            x = gen.pick(rng, with_take or cands)
            key = gen.pick(rng, [k for k in ('min_take', 'max_take') if x.get(k)] or ['min_take', 'max_take'])      # preferably next to an existing period
            sign = 1. if x['type'] == 'ExtendedTransport' else (-1. if key == 'min_take' else 1.)
            tk = x.get(key) or {'start': [], 'end': [], 'values': []}
            pos_ = int(rng.integers(0, len(tk['start']) + 1)) if rng.random() < 0.5 else 0        # listed before, between or after the existing periods (lists need not be in time order)
            tk = {'start': list(tk['start'][:pos_]) + [s] + list(tk['start'][pos_:]), 'end': list(tk['end'][:pos_]) + [e] + list(tk['end'][pos_:]),
                  'values': list(tk['values'][:pos_]) + [sign * 3.] + list(tk['values'][pos_:])}
            x[key] = tk
            return sp, 'take_period_' + place, None
    if a is None:
        a = {'type': 'SimpleContract', 'name': name, 'nodes': [gen.pick(rng, nodes)], 'price': sorted(spec['prices'])[0], 'min_cap': 2. * f, 'max_cap': 5. * f, 'start': s, 'end': e}
        kind = 'simplecontract'
    posn = gen.pick(rng, ['first', 'middle', 'last'])
    i = 0 if posn == 'first' else (len(sp['assets']) if posn == 'last' else len(sp['assets']) // 2)
    sp['assets'].insert(i, a)
    return sp, '%s_%s_%s' % (kind, place, posn), name


def check_windows(case, spec, r, ck):
    """(a) mapping rows / dispatch only inside [start,end) & horizon."""
    snaps = [(pev, kids) for pev, kids in flow.top_setups(r.rec)]
    m = r.op.mapping
    flowed = False
    for a in spec['assets']:
        if a['type'] in ('StructuredAsset', 'LinkedAsset') and (a.get('start') is not None or a.get('end') is not None):
            # a structured asset is an asset: it (and everything it wraps) is dispatched only inside its own window; a wrapped asset
            # additionally only inside its own
            Ws = set(ck.window(a.get('start'), a.get('end')))
            rows = m[(m['asset'] == a['name'])]
            steps = set(int(t) for t in rows['time_step'].values)
            case.check('window.mapping_rows_inside', steps <= Ws, asset=a['name'], cls=a['type'], outside=sorted(steps - Ws)[:6], start=a.get('start'), end=a.get('end'))
            if 'internal_asset' in rows.columns:
                for x in a['assets']:
                    Wx = Ws & set(ck.window(x.get('start'), x.get('end')))
                    sx = set(int(t) for t in rows[rows['internal_asset'] == x['name']]['time_step'].values)
                    case.check('window.mapping_rows_inside', sx <= Wx, asset=a['name'] + '/' + x['name'], cls='wrapped ' + x['type'], outside=sorted(sx - Wx)[:6],
                               start=x.get('start'), end=x.get('end'), struct_window=[a.get('start'), a.get('end')])
            if r.solved and r.out is not None:
                disp = r.out['dispatch']; nz = set()
                for n in a['nodes']:
                    col = a['name'] if len(r.built.portfolio.nodes) == 1 else '%s (%s)' % (a['name'], n)
                    if col in disp.columns:
                        nz |= set(np.where(np.abs(disp[col].values.astype(float)) > 1e-7)[0].tolist())
                if nz:
                    flowed = True
                case.check('window.dispatch_zero_outside', nz <= Ws, nonvacuous=bool(nz), asset=a['name'], cls='StructuredAsset', outside=sorted(nz - Ws)[:6])
            continue
        if a['type'] in ('OrderBook', 'StructuredAsset', 'LinkedAsset'):
            continue
        W = set(ck.window(a.get('start'), a.get('end')))
        rows = m[(m['asset'] == a['name'])]
        steps = set(int(t) for t in rows['time_step'].values) if len(rows) else set()
        if a['type'] == 'ScaledAsset':
            # the wrapper is an asset: dispatched only inside its own window (and the base only inside its own); the fix costs of the scale variable
            # accrue over the wrapper's window clipped to the horizon
            steps = set(int(t) for t in rows[rows['type'] == 'd']['time_step'].values)
            Wown = set(W)
            W = W & set(ck.window(a['base'].get('start'), a['base'].get('end')))
            sz = rows[rows['type'] == 'size']
            if len(sz) == 1 and not a.get('wacc') and not hasattr(r.op, 'ops'):          # (a split problem has one scale variable per interval)
                got = float(r.op.c[int(sz.index[0])]); want = float(a.get('fix_costs', 0.)) * float(ck.dt[sorted(Wown)].sum())
                case.check('window.scaled_fix_costs_over_own_window', abs(got - want) <= 1e-9 * (1 + abs(want)), nonvacuous=bool(a.get('fix_costs')) and len(Wown) < ck.T,
                           asset=a['name'], cost_of_scale_variable=got, fix_costs_times_covered_time=want, start=a.get('start'), end=a.get('end'))
        windowed = a.get('start') is not None or a.get('end') is not None
        case.check('window.mapping_rows_inside', steps <= W, nonvacuous=windowed, asset=a['name'], cls=a['type'], outside=sorted(steps - W)[:6],
                   start=a.get('start'), end=a.get('end'))
        if r.solved and r.out is not None:
            disp = r.out['dispatch']
            nz = set()
            for n in (a.get('nodes') or a.get('base', {}).get('nodes') or []):
                col = a['name'] if len(r.built.portfolio.nodes) == 1 else '%s (%s)' % (a['name'], n)
                if col in disp.columns:
                    v = disp[col].values.astype(float)
                    nz |= set(np.where(np.abs(v) > 1e-7)[0].tolist())
            if nz and windowed:
                flowed = True
            case.check('window.dispatch_zero_outside', nz <= W, nonvacuous=windowed and bool(nz), asset=a['name'], cls=a['type'], outside=sorted(nz - W)[:6])
    return flowed


def check_takes(case, spec, r, ck, clause='take.prorated_rhs'):
    """(c) take rows of each contract (asset-level sub-problem rows) carry the prorated right-hand side."""
    any_partial = False
    for pev, kids in flow.top_setups(r.rec)[:1]:
        for kd in kids:
            a = [x for x in spec['assets'] if x['name'] == kd.args['name']]
            if not a or a[0]['type'] not in ('Contract', 'MultiCommodityContract', 'ExtendedTransport') or a[0].get('periodicity') or a[0].get('freq'):
                continue
            a = a[0]
            W = ck.window(a.get('start'), a.get('end'))
            want = []
            for key in ('max_take', 'min_take'):
                tk = a.get(key)
                if not tk:
                    continue
                for s, e, v in zip(tk['start'], tk['end'], tk['values']):
                    s_ = ck.ts(s); e_ = ck.ts(e)
                    S = [t for t in W if s_ <= ck.points[t] < e_]
                    if not S:
                        continue
                    full = (e_ - s_).value / UNIT_NS[ck.unit]
                    cov = float(ck.dt[S].sum())
                    if abs(cov - full) > 1e-9:
                        any_partial = True
                    sign = -1. if a['type'] == 'ExtendedTransport' else 1.
                    want.append(sign * v * cov / full)
            if not (a.get('max_take') or a.get('min_take')):
                continue
            got = [] if kd.snap.b is None else list(kd.snap.b)
            ok = len(got) == len(want) and all(abs(x - y) <= 1e-9 * (1 + abs(y)) for x, y in zip(got, want))
            case.check(clause, ok, nonvacuous=bool(want), asset=a['name'], cls=a['type'], got=got[:4], want=want[:4])
    return any_partial


def run_case(rng, tier, case):
    base = gen.gen_mixed_portfolio(rng, kinds=('contract', 'contract', 'transport', 'storage', 'multi', 'orderbook', 'coarse', 'plant', 'storage_blocks', 'scaled', 'chp_minload', 'linked'),
                                   grid_kw={'steps': (5, 26)}, n_assets=(2, 5), n_nodes=(1, 3))
    spec = gen.strip_private(base)
    if rng.random() < 0.3:
        # a structured asset with a window of its own (both ends, only start, only end) around wrapped assets with and without own windows
        g = spec['grid']; f = gen.UNIT_F[g['unit']]
        ext = sorted({n for a in spec['assets'] for n in (a.get('nodes') or [])})[0]
        ws, we, _k = gen.gen_window(rng, g, kinds=['inside', 'inside', 'straddle_start', 'straddle_end', 'start_only', 'end_only'])
        inner = []
        for nm, mk in (('sw_src', lambda w: gen.gen_contract(rng, g, 'sw_src', 'sw_in', f, sorted(spec['prices'])[0], window=False, take=False, simple=True, dict_caps=False)),
                       ('sw_tr', lambda w: gen.gen_transport(rng, g, 'sw_tr', 'sw_in', ext, f, window=False, extended=False))):
            x = gen.strip_private(mk(None))
            i_s, i_e, _k2 = gen.gen_window(rng, g, kinds=['none', 'none', 'inside', 'straddle_start', 'straddle_end', 'start_only', 'end_only'])
            x['start'] = i_s; x['end'] = i_e
            inner.append(x)
        spec['assets'].append({'type': 'StructuredAsset', 'name': 'swin', 'nodes': [ext], 'assets': inner, 'start': ws, 'end': we})
        case.feature('structured_with_window')
    plus, what, inert_name = inert_element(rng, spec)
    if spec['grid'].get('tz') and rng.random() < 0.4:
        # the dates of an asset (window, take periods) given zone-aware: in UTC or quoted in another zone than the grid's (the same instants)
        form = gen.pick(rng, ['aware_utc', 'aware_other'])
        names_ = {a['name'] for a in spec['assets'] if (a.get('min_take') or a.get('max_take'))}
        for sp_ in (spec, plus):
            for a in sp_['assets']:
                if a['name'] in names_:
                    a['_date_form'] = form
        case.feature('take_dates_' + form)
    split = gen.pick(rng, ['d', '12h', '6h']) if (rng.random() < 0.3 and not spec['grid']['freq'].endswith('d')) else None
    case.feature('inert:' + what.split('_')[0], 'place:' + what, 'split' if split else 'monolithic')
    case.key = env.spec_key([spec, plus, split]); case.sample = {'P': gen.abbreviate(spec), 'inert_element': what, 'split': split}; case.spec = {'P': spec, 'P_plus': plus, 'split': split}
    ck = Clock(spec['grid'])
    mip = gen.is_mip(plus)
    via_json = rng.random() < 0.15 and not any(a['type'] == 'LinkedAsset' for a in plus['assets'])       # (a LinkedAsset cannot be loaded from its JSON: finding F7d of C11)
    if via_json:
        case.feature('portfolio_from_its_json_form')
    r1 = flow.run_portfolio(spec, split=split, via_json=via_json)
    if not r1.ok:
        if via_json and r1.stage == 'json':
            case.check('window.json_form_usable', False, error=flow.describe_error(r1)); return
        case.reject('P: ' + flow.describe_error(r1)); return
    r2 = flow.run_portfolio(plus, split=split, via_json=via_json)
    if not r2.ok:
        # P works, P+ (only an out-of-horizon element added) does not: the element is not inert
        case.check('inert.setup_still_works', False, element=what, error=flow.describe_error(r2)); return
    case.check('inert.setup_still_works', True, element=what)
    flowed = check_windows(case, spec, r1, ck)
    check_windows(case, plus, r2, ck)
    partial = check_takes(case, spec, r1, ck) if not split else False
    if not split:
        check_takes(case, plus, r2, ck)
        # the proration holds for EVERY set-up: the same objects set up a second time (a take period partly outside is prorated once, not again)
        r1b = flow.run_portfolio(spec, built=r1.built, do_optimize=False)
        if r1b.ok:
            check_takes(case, spec, r1b, ck)
        else:
            case.check('take.second_setup_works', False, error=flow.describe_error(r1b))
    # (a+) windows are what the asset says NOW: a new portfolio in which one asset has another window, set up on the SAME Timegrid object that the
    # first portfolio used (what-if run / next delivery period on the same grid object)
    if not split and rng.random() < 0.3:
        movable = [a for a in spec['assets'] if a['type'] in ('SimpleContract', 'Contract', 'Transport', 'ExtendedTransport', 'Storage', 'MultiCommodityContract')
                   and not a.get('freq') and not a.get('periodicity') and not a.get('block_size')]
        if movable:
            moved = copy.deepcopy(spec)
            nm_ = movable[int(rng.integers(len(movable)))]['name']
            a_ = [x for x in moved['assets'] if x['name'] == nm_][0]
            ns_, ne_, _k = gen.gen_window(rng, spec['grid'], kinds=['inside', 'inside', 'straddle_start', 'straddle_end', 'start_only', 'end_only', 'none'])
            if (ns_, ne_) != (a_.get('start'), a_.get('end')):
                a_['start'] = ns_; a_['end'] = ne_
                for tk_ in ('min_take', 'max_take'):
                    a_.pop(tk_, None)
                rm = flow.run_portfolio(moved, timegrid=r1.built.timegrid)
                if not rm.ok:
                    rf_ = flow.run_portfolio(moved, do_optimize=False)
                    if rf_.ok:
                        case.check('window.moved_window_on_used_grid_works', False, asset=a_['name'], error=flow.describe_error(rm))
                else:
                    case.feature('moved_window_on_used_grid')
                    check_windows(case, moved, rm, ck)
    # (a') "window clipped to the optimisation horizon": stating the part of a window that lies outside the horizon changes nothing - the same
    # portfolio with every overhanging start / end replaced by the horizon's gives the identical problem (the start of an asset with its own
    # coarser frequency anchors its coarse steps and is left as it is)
    if not split:
        from ..canon import problem_diff
        gs = ck.points[0]; ge = ck.ts(spec['grid']['end'])
        clip = copy.deepcopy(spec); changed = []
        def clip_asset(a):
            if a.get('start') is not None and ck.ts(a['start']) < gs and not a.get('freq'):
                a['start'] = None; changed.append(a['name'] + '.start')
            if a.get('end') is not None and ck.ts(a['end']) > ge:
                a['end'] = spec['grid']['end']; changed.append(a['name'] + '.end')
        for a in clip['assets']:
            if a['type'] in ('StructuredAsset', 'LinkedAsset', 'OrderBook'):
                continue
            clip_asset(a)
        if changed:
            rc = flow.run_portfolio(clip, do_optimize=False)
            if not rc.ok:
                case.check('window.overhang_beyond_horizon_is_irrelevant', False, changed=changed, error=flow.describe_error(rc))
            else:
                d = problem_diff(Snap(r1.op), Snap(rc.op), rtol=0., compare_mapping=True)
                case.check('window.overhang_beyond_horizon_is_irrelevant', d is None, changed=changed, diff=d)
    # (a'') the horizon itself: the same portfolio - every asset explicitly confined to the original horizon - on a horizon that begins earlier gives
    # the same problem (nothing may be anchored at the horizon start: blocks, coarse steps, periods, proration); discounting counts from the grid
    # start, so both sides are compared without discounting
    if not split and rng.random() < 0.4 and not any(a['type'] in ('OrderBook', 'LinkedAsset') for a in spec['assets']):
        from ..canon import problem_diff
        g0 = spec['grid']; pts0 = gen.grid_points(g0)
        kx = int(rng.integers(1, 7))
        stepd = (pts0[1] - pts0[0]) if len(pts0) > 1 else pd.Timedelta(hours=1)
        if g0['freq'].endswith('d'):
            stepd = pd.Timedelta(days=int(pd.tseries.frequencies.to_offset(g0['freq']).n))
        new_start = str(pd.Timestamp(g0['start']) - kx * stepd)
        g1 = dict(g0, start=new_start)
        try:
            ok_grid = local_ok(new_start, g0.get('tz')) and len(gen.grid_points(g1)) == len(pts0) + kx and gen.grid_points(g1)[kx] == pts0[0]
        except Exception:
            ok_grid = False
        if ok_grid:
            def confined(sp_, grid):
                q = copy.deepcopy(sp_); q['grid'] = grid
                def fix(a):
                    if 'wacc' in a: a['wacc'] = 0.
                    if a['type'] != 'OrderBook':
                        st_ = a.get('start')
                        a['start'] = g0['start'] if (st_ is None or ck.ts(st_) < ck.points[0]) else st_
                    if 'base' in a: fix(a['base'])
                    for x in a.get('assets', []): fix(x)
                for a in q['assets']: fix(a)
                return q
            base_c = confined(spec, g0); ext_c = confined(spec, g1)
            ext_c['prices'] = {k: [float(z) for z in rng.normal(20, 5, kx)] + list(v) for k, v in spec['prices'].items()}
            rb = flow.run_portfolio(base_c, do_optimize=False); re_ = flow.run_portfolio(ext_c, do_optimize=False)
            if rb.ok and not re_.ok:
                case.check('horizon.earlier_start_is_irrelevant', False, earlier_by_steps=kx, error=flow.describe_error(re_))
            elif rb.ok and re_.ok:
                d = problem_diff(Snap(rb.op), Snap(re_.op), rtol=0., compare_mapping=False)
                case.check('horizon.earlier_start_is_irrelevant', d is None, earlier_by_steps=kx, diff=d)
    # (b) problem of P+ restricted to P's variables == problem of P
    s1 = flow.top_setups(r1.rec); s2 = flow.top_setups(r2.rec)
    if len(s1) != len(s2):
        case.check('inert.problem_unchanged', False, error='different number of interval problems', n1=len(s1), n2=len(s2)); return
    allsame = True; why = None
    for (p1, k1), (p2, k2) in zip(s1, s2):
        keep = []
        pos = 0
        for kd in k2:
            n = len(kd.snap.c)
            if isinstance(inert_name, tuple) and kd.args['name'] == inert_name[1]:
                keep += [pos + j for j in range(n) if j != inert_name[2]]          # (the book's variables without the inserted order's)
            elif kd.args['name'] != inert_name:
                keep += list(range(pos, pos + n))
            pos += n
        keep = np.array(keep, dtype=int)
        drop = np.setdiff1d(np.arange(len(p2.snap.c)), keep)
        a, b = p1.snap, p2.snap
        if len(keep) != len(a.c):
            allsame = False; why = 'number of variables of P\'s assets changed: %d vs %d' % (len(keep), len(a.c)); break
        for nm in ('c', 'l', 'u'):
            d = vec_diff(getattr(a, nm), getattr(b, nm)[keep], 0.)
            if d: allsame = False; why = nm + ': ' + d
        if drop.size and (np.any(b.c[drop] != 0) or (b.A is not None and abs(b.A.tocsr()[:, drop]).sum() != 0)):
            allsame = False; why = 'extra variables of the out-of-horizon element are not inert'
        # rows: asset rows (non-N) in order; nodal rows matched by their (step, node) key (an element inserted first may reorder the nodes)
        d = rows_diff(a, b, keep)
        if d:
            allsame = False; why = d
        if not allsame:
            break
    case.check('inert.problem_unchanged', allsame, element=what, why=why)
    if r1.solved and r2.solved:
        v1, v2 = float(r1.res.value), float(r2.res.value)
        case.check('inert.value_unchanged', abs(v1 - v2) <= (solve.TOL_VAL_MIP if mip else solve.TOL_VAL) * (1 + abs(v1)), value_P=v1, value_P_plus=v2, element=what)
    elif isinstance(r1.res, str) != isinstance(r2.res, str) and 'inaccurate' not in (r1.res, r2.res):
        case.check('inert.value_unchanged', False, res_P=str(r1.res)[:20], res_P_plus=str(r2.res)[:20], element=what)
    case.nontrivial = bool(flowed or partial)
