"""C01 Nodal balance: flows at every node and time step net to zero."""
import numpy as np
from .. import env, attach, gen, flow
from ..mon_output import mon_balance_output, mon_balance_raw

PROPERTY = 'C01'
gen.OFFGRID = 0.12      # some asset windows start or end strictly between two grid points
CASES = {'quick': 504, 'thorough': 4032}
BUDGET_S = {'quick': 200, 'thorough': 1800}
SUITE_UNDER_MONITORS = True      # thorough tier: the repository's own tests are an extra workload under the passive monitors
RULE = ('case = one random multi-node portfolio (transports with efficiency, multi-commodity factors, CHP/Plant with fuel node, coarse-frequency '
        'and periodic assets, order books, storages with two nodes, structured wrappers) optimised through the real code, monolithic or split '
        '(interval sizes aligned and not aligned with the horizon), then extract_output; the monitor sums the dispatch table per node and step '
        '(column->node association from the portfolio structure) and, independently, x*disp_factor over the raw mapping rows at every optimize '
        'return (incl. renamed internal nodes of structured assets). Non-trivial: >=1 (node, step) with >=2 assets carrying |flow|>1e-6; '
        'distinct = distinct spec hashes.')
ASSUMPTIONS = ['tolerance 1e-6*(1+max|dispatch|)', 'results flagged inaccurate or infeasible portfolios make no claim (counted)']
MIN_NONVACUOUS = {'quick': {'balance.output': 200, 'balance.raw': 250, 'balance.raw_internal_nodes': 20},
                  'thorough': {'balance.output': 1500, 'balance.raw': 2000, 'balance.raw_internal_nodes': 150}}
KINDS = ('contract', 'transport', 'transport', 'storage', 'multi', 'multi', 'orderbook', 'plant', 'chp', 'structured', 'structured', 'coarse', 'coarse',
         'periodic', 'storage_blocks', 'scaled')


def fixed_only_spec(rng):
    """a portfolio in which, in the last split interval, only must-run assets (min_cap == max_cap) are active - and do not balance: there is no solution for that
    interval, so nothing may be returned as one."""
    import pandas as pd
    g = gen.gen_grid(rng, freqs=['h', '2h'], steps=(48, 48), hour_offsets=(0,), tzs=[None, 'CET'])
    d0 = pd.Timestamp(g['start']); days = 2 if g['freq'] == 'h' else 4
    g['end'] = str(d0 + pd.Timedelta(days=days))
    f = gen.UNIT_F[g['unit']]
    gq, dq = gen.pick(rng, [(5., 3.), (2., 6.), (4., 4.5)])
    assets = [{'type': 'SimpleContract', 'name': 'must_run', 'nodes': ['hub'], 'min_cap': gq * f, 'max_cap': gq * f, 'wacc': 0.},
              {'type': 'SimpleContract', 'name': 'load', 'nodes': ['hub'], 'min_cap': -dq * f, 'max_cap': -dq * f, 'wacc': 0.},
              {'type': 'SimpleContract', 'name': 'mkt', 'nodes': ['hub'], 'price': 'p0', 'min_cap': -20. * f, 'max_cap': 20. * f, 'extra_costs': 0.1, 'wacc': 0.,
               'end': str(d0 + pd.Timedelta(days=days - 1))}]
    if not (gen.local_ok(g['end'], g.get('tz')) and gen.local_ok(assets[2]['end'], g.get('tz'))):
        return None
    T = len(gen.grid_points(g))
    return {'grid': g, 'assets': assets, 'prices': gen.gen_prices(rng, T, ['p0'], kind='normal')}


def run_slp_case(rng, tier, case):
    """every solution returned: also the two-stage stochastic program (make_slp -> optimize -> extract_output) - the reported dispatch (present part plus
    the mean over the scenario copies of the future part) nets to zero at every node and step, because every scenario's balance does."""
    import eaopack.io as eio
    import eaopack.stoch_lin_prog as SLP
    from ..spec import build
    spec = gen.strip_private(gen.gen_lp_portfolio(rng, grid_kw={'steps': (6, 18)}, types=('contract', 'transport', 'transport', 'storage', 'multi', 'multi'), n_assets=(2, 5), n_nodes=(2, 3)))
    g_ = spec['grid']; f_ = gen.UNIT_F[g_['unit']]
    if rng.random() < 0.4 and g_['freq'] in gen.COARSE_OF:
        # an asset whose own coarser steps reach from the present into the future (its variable exists once, not once per scenario)
        lv = float(gen.pick(rng, [2., -1.5]))
        spec['assets'].append({'type': 'SimpleContract', 'name': 'co_fix', 'nodes': [spec['assets'][0]['nodes'][0]], 'min_cap': lv * f_, 'max_cap': lv * f_, 'freq': gen.pick(rng, gen.COARSE_OF[g_['freq']]), 'wacc': 0.})
        case.feature('slp_coarse_asset')
    if rng.random() < 0.3:
        spec['assets'].append(gen.strip_private(gen.gen_orderbook(rng, g_, 'ob', spec['assets'][0]['nodes'][0])))
        case.feature('slp_orderbook')
    case.feature('slp')
    for t in gen.asset_types(spec):
        case.feature('type:' + t)
    case.key = env.spec_key([spec, 'slp']); case.sample = dict(gen.abbreviate(spec), slp=True); case.spec = spec
    try:
        with env.quiet():
            b = build(spec); P, tg = b.portfolio, b.timegrid
            k = int(rng.integers(1, tg.T))
            samples = [{q: np.asarray(v, float) for q, v in gen.gen_prices(rng, tg.T, sorted(spec['prices'])).items()} for _ in range(int(rng.integers(1, 4)))]
            op = SLP.make_slp(P.setup_optim_problem(b.prices, tg), P, tg, tg.timepoints[k], samples)
            res = op.optimize()
    except Exception as e:
        case.reject('slp set-up / optimise: %s %s' % (type(e).__name__, str(e)[:120])); return
    if isinstance(res, str):
        case.inconc('slp not solved: ' + res); return
    try:
        with env.quiet():
            out = eio.extract_output(P, op, res, b.prices)
    except Exception as e:
        case.check('balance.slp_extraction_works', False, error='%s: %s' % (type(e).__name__, str(e)[:160])); return
    case.nontrivial = bool(mon_balance_output(case, P, out, clause='balance.output_slp'))


def run_case(rng, tier, case):
    if rng.random() < 0.1:
        return run_slp_case(rng, tier, case)
    if rng.random() < 0.04:
        spec = fixed_only_spec(rng)
        if spec is not None:
            case.feature('fixed_only_last_interval')
            case.key = env.spec_key(spec); case.sample = gen.abbreviate(spec); case.spec = spec
            for split in ('d', None):
                r = flow.run_portfolio(spec, split=split)
                if r.ok and r.solved:
                    # (a returned solution is judged like any other)
                    mon_balance_output(case, r.built.portfolio, r.out, clause='balance.output')
                    for ev in r.rec.of('optimize'):
                        if ev.snap is not None and ev.ret is not None and not isinstance(ev.ret, str):
                            mon_balance_raw(case, ev.snap, ev.ret.x)
                else:
                    case.event('no_solution_returned_for_unbalanced_must_run_assets')
            case.nontrivial = True
            return
    spec = gen.gen_mixed_portfolio(rng, kinds=KINDS, grid_kw={'steps': (4, 26)}, n_assets=(2, 5), n_nodes=(1, 3))
    if rng.random() < 0.3:
        spec, _ = gen.rename_hostile(rng, spec)          # node / asset names that are prefixes of each other, differ in length, end in digits
        case.feature('hostile_names')
    split = None
    if rng.random() < 0.35 and not spec['grid']['freq'].endswith('d'):
        split = gen.pick(rng, ['d', '12h', '6h', '8h'])
        case.feature('split:' + split)
    for t in gen.asset_types(spec):
        case.feature('type:' + t)
    case.feature('tz:' + str(spec['grid']['tz']), 'freq:' + spec['grid']['freq'])
    case.key = env.spec_key(gen.strip_private(spec)); case.sample = dict(gen.abbreviate(spec), split=split); case.spec = spec
    one_call = rng.random() < 0.2          # a fifth of the cases go through the documented shortcut eaopack.io.optimize
    if one_call:
        case.feature('route:io.optimize')
    r = flow.run_portfolio(spec, split=split, one_call=one_call, data_form=gen.pick(rng, ['dict', 'frame_time', 'frame_pos']) if one_call else 'dict')
    if not r.ok:
        case.reject(flow.describe_error(r)); return
    if not r.solved:
        case.inconc('not solved: ' + str(r.res)); return
    nt = mon_balance_output(case, r.built.portfolio, r.out)
    # raw variant at every optimize return
    for ev in r.rec.of('optimize'):
        if ev.snap is not None and ev.ret is not None and not isinstance(ev.ret, str):
            if mon_balance_raw(case, ev.snap, ev.ret.x):
                nt = True
    case.event('optimize', r.rec.counts['optimize']); case.event('extract', r.rec.counts['extract'])
    if gen.is_mip(spec) and not split and rng.random() < 0.5:
        # "every solution returned": also the solution of the documented relaxed run (make_soft_problem) of the same problem object
        import eaopack.io as eio
        from ..canon import Snap
        try:
            with env.quiet():
                res_s = r.op.optimize(make_soft_problem=True)
                out_s = None if isinstance(res_s, str) else eio.extract_output(r.built.portfolio, r.op, res_s, r.built.prices)
        except Exception as e:
            case.check('balance.relaxed_run_works', False, error='%s: %s' % (type(e).__name__, str(e)[:160])); res_s = 'failed'; out_s = None
        if not isinstance(res_s, str):
            case.feature('relaxed_run')
            mon_balance_raw(case, Snap(r.op), res_s.x, clause='balance.raw_relaxed_run')
            mon_balance_output(case, r.built.portfolio, out_s, clause='balance.output_relaxed_run')
    if rng.random() < 0.25:
        # "every solution returned": the same Portfolio object is set up and solved again after the user changed a factor on an asset object
        # (transport efficiency, commodity factors) - the second solution must balance with the NEW factors
        P = r.built.portfolio
        cands = [(a, x) for a, x in zip(P.assets, spec['assets']) if type(a).__name__ in ('Transport', 'ExtendedTransport', 'MultiCommodityContract')]
        if cands:
            a, x = cands[int(rng.integers(len(cands)))]
            if type(a).__name__ == 'MultiCommodityContract':
                fc = [1.] + [gen.pick(rng, [0.3, 1.2, -0.7, 2.5]) for _ in a.nodes[1:]]
                a.factors_commodities = list(fc); x['factors_commodities'] = list(fc)
            else:
                a.efficiency = x['efficiency'] = gen.pick(rng, [v for v in (1., 0.9, 0.8, 0.5) if v != x.get('efficiency')])
            case.feature('second_run_after_factor_change')
            fw = None
            if rng.random() < 0.5 and not split:
                # ... with the first part of the horizon fixed to the PREVIOUS solution (which balanced under the old factors): either no solution is
                # returned, or one that balances under the new factors
                T_ = r.built.timegrid.T
                fw = {'I': np.arange(T_) < max(1, T_ // 2), 'x': np.asarray(r.res.x, float).copy()}
                case.feature('second_run_with_fixed_window')
            r2 = flow.run_portfolio(spec, split=split, built=r.built, fix_time_window=fw)
            if r2.ok and r2.solved:
                if mon_balance_output(case, P, r2.out, clause='balance.output_second_run'):
                    nt = True
                for ev in r2.rec.of('optimize'):
                    if ev.snap is not None and ev.ret is not None and not isinstance(ev.ret, str):
                        mon_balance_raw(case, ev.snap, ev.ret.x)
            elif not r2.ok and r2.stage in ('optimize', 'extract'):
                case.check('balance.second_run_works', False, error=flow.describe_error(r2))
    case.nontrivial = bool(nt)
