"""C14 Split optimisation is consistent with the unsplit problem."""
import copy
import numpy as np
import pandas as pd
from .. import env, attach, gen, flow, solve
from ..canon import Snap
from ..mon_output import mon_balance_output

PROPERTY = 'C14'
gen.OFFGRID = 0.12      # some asset windows start or end strictly between two grid points
CASES = {'quick': 360, 'thorough': 2880}
BUDGET_S = {'quick': 300, 'thorough': 2400}
RULE = ('case = one portfolio solved through the real code twice: unsplit (setup_optim_problem) and split (setup_split_optim_problem, interval sizes '
        '6h/8h/12h/d/2d) on horizons not aligned with the interval (06:00 starts, partial last interval), with wacc != 0 in part of the assets, '
        'transports, multi-commodity, takes, DST days. Three classes: uncoupled (contracts, transports, multi-commodity without take), storage-coupled '
        '(storages with start level = end level), general (plants, order books, scaled, coarse, periodic; value = sum only). Clauses: split value = sum '
        'of the recorded per-interval optima; split time steps lie on the original grid and the multiset of (asset, variable, node, step) rows equals '
        'the unsplit one; the split solution transferred into the unsplit problem by that key satisfies all its bounds / asset rows / nodal rows and '
        'attains the split value there (discounting continues across intervals); uncoupled => split value = unsplit value; start=end storages => '
        'split value <= unsplit value; extracted dispatch balances per node on the original grid. Non-trivial: >=2 non-empty intervals and flow; '
        'distinct = (spec, interval size) hashes.')
ASSUMPTIONS = ['"nothing couples the intervals" = no storage, take period, scaled asset, order spanning a boundary, plant, coarse or periodic asset',
               'storage-coupled cases exclude (inflow != 0 and holding cost != 0): the constant holding cost of inflow is not part of EAO\'s value (documented) and differs between a per-interval and a whole-horizon tail sum',
               'value tolerance 1e-5 (MIP 2e-4) relative, feasibility 1e-6 scaled']
MIN_NONVACUOUS = {'quick': {'split.value_is_sum_of_intervals': 200, 'split.rows_match_unsplit': 150, 'split.solution_feasible_in_unsplit': 150,
                            'split.uncoupled_equals_unsplit': 62, 'split.storage_coupled_not_above_unsplit': 50, 'split.balance_on_original_grid': 150},
                  'thorough': {'split.value_is_sum_of_intervals': 1000, 'split.solution_feasible_in_unsplit': 800, 'split.uncoupled_equals_unsplit': 300,
                               'split.storage_coupled_not_above_unsplit': 300}}


def gen_gap_case(rng):
    """uncoupled portfolio with an interval in which NO asset has a mapped step, while the order book still has its (unmapped) variables there."""
    g = gen.gen_grid(rng, freqs=['h', '2h'], steps=(72, 72), hour_offsets=(0,), tzs=[None, 'CET', 'Asia/Kolkata'])
    pts = gen.grid_points(g)
    d0 = pd.Timestamp(g['start'])
    g['end'] = str(d0 + pd.Timedelta(days=3 if g['freq'] == 'h' else 4))
    f = gen.UNIT_F[g['unit']]
    day = lambda k, h=0: str(d0 + pd.Timedelta(days=k, hours=h))
    last = 2 if g['freq'] == 'h' else 3
    mk = lambda nm, s_, e_: {'type': 'SimpleContract', 'name': nm, 'nodes': ['n0'], 'price': 'p0', 'min_cap': -5. * f, 'max_cap': 5. * f, 'extra_costs': 0.1, 'wacc': 0., 'start': s_, 'end': e_}
    orders = {'start': [], 'end': [], 'capa': [], 'price': []}
    for k in (0, last):
        for _ in range(int(rng.integers(1, 4))):
            h0 = int(rng.integers(0, 20)); h1 = int(rng.integers(h0 + 1, 24))
            orders['start'].append(day(k, h0)); orders['end'].append(day(k, h1)); orders['capa'].append(float(gen.pick(rng, [-2., 1., 3.]))); orders['price'].append(gen.r2(20 + rng.normal(0, 6)))
    assets = [mk('early', None, day(1)), {'type': 'OrderBook', 'name': 'ob', 'nodes': ['n0'], 'orders': orders, 'full_exec': False, 'wacc': 0.}, mk('late', day(last), None)]
    if rng.random() < 0.5:
        assets = assets[::-1]
    T = len(gen.grid_points(g))
    spec = {'grid': g, 'assets': assets, 'prices': gen.gen_prices(rng, T, ['p0'], kind='normal')}
    if not all(gen.local_ok(day(k), g.get('tz')) for k in range(0, last + 2)):
        return None
    return spec, 'uncoupled', 'd'


def gen_case(rng):
    if rng.random() < 0.06:
        q = gen_gap_case(rng)
        if q is not None:
            return q
    if rng.random() < 0.08:
        # uncoupled although periodic: a periodic contract whose periodicity_duration equals the split size (durations and intervals both count from the
        # horizon start), next to ordinary contracts
        g = gen.gen_grid(rng, freqs=['h'], steps=(30, 60), hour_offsets=(0, 6, 3), tzs=[None, 'Asia/Kolkata'], anchors=['2021-01-10', '2020-12-30', '2021-06-29'])
        spec = gen.gen_lp_portfolio(rng, g=g, types=('contract', 'transport', 'multi'), n_assets=(1, 3), n_nodes=(1, 2))
        for a in spec['assets']:
            a.pop('min_take', None); a.pop('max_take', None)
        per, dur = gen.pick(rng, [('4h', '12h'), ('6h', '24h'), ('4h', '1d'), ('4h', 'd'), ('6h', 'd')])
        f = gen.UNIT_F[g['unit']]
        pe = gen.gen_contract(rng, g, 'pe', spec['assets'][0]['nodes'][0], f, sorted(spec['prices'])[0], window=False, take=False, dict_caps=False)
        pe['periodicity'] = per; pe['periodicity_duration'] = dur; pe['wacc'] = 0.
        spec['assets'].append(pe)
        return gen.strip_private(spec), 'uncoupled', dur
    cls = gen.pick(rng, ['uncoupled', 'uncoupled', 'storage', 'storage', 'general'])
    long_h = rng.random() < 0.2
    if long_h:
        # long horizons for calendar-anchored interval sizes (weeks, months), starting on or off the anchor
        g = gen.gen_grid(rng, freqs=['4h', 'd', 'd'], steps=(40, 60), hour_offsets=(0, 0, 12))
        if g['freq'] == 'd':
            g = gen.gen_grid(rng, freqs=['d'], steps=(14, 14), hour_offsets=(0,))
            g['end'] = str(pd.Timestamp(g['start']) + pd.Timedelta(days=int(rng.integers(12, 50))))
            if not gen.local_ok(g['end'], g['tz']):
                long_h = False
    if not long_h:
        g = gen.gen_grid(rng, freqs=['h', 'h', '2h', '30min', '4h'], steps=(14, 60), hour_offsets=(0, 6, 6, 18, 3))
    if cls == 'uncoupled':
        spec = gen.gen_lp_portfolio(rng, g=g, types=('contract', 'transport', 'multi'), n_assets=(2, 5), n_nodes=(1, 3))
        for a in spec['assets']:
            a.pop('min_take', None); a.pop('max_take', None)
    elif cls == 'storage':
        spec = gen.gen_lp_portfolio(rng, g=g, types=('contract', 'transport', 'storage', 'storage'), n_assets=(2, 5), n_nodes=(1, 3))
        for a in spec['assets']:
            if a['type'] == 'Storage':
                a['end_level'] = a['start_level']
                if a.get('inflow') and a.get('cost_store'):
                    a['cost_store'] = 0.
    else:
        spec = gen.gen_mixed_portfolio(rng, g=g, n_assets=(2, 5), n_nodes=(1, 3))
    for a in spec['assets']:
        if 'wacc' in a and a['type'] != 'ScaledAsset' and not a.get('freq') and not a.get('periodicity') and rng.random() < 0.5:
            a['wacc'] = gen.pick(rng, [0.05, 0.2, 0.5])
    size = gen.pick(rng, ['6h', '8h', '12h', 'd', 'd', '2d']) if not long_h else gen.pick(rng, ['W', 'W', 'W-MON', '7d', 'MS', '3d'])
    return gen.strip_private(spec), cls, size


def row_key(m):
    """variable -> key (asset, var_name, sorted (node, step, factor) rows); keys are unique for the classes used in the transfer."""
    keys = {}
    has_df = 'disp_factor' in m.columns
    for idx, a, vn, n, t, f in zip(m.index, m['asset'], m['var_name'], m['node'], m['time_step'], (m['disp_factor'] if has_df else [1.] * len(m))):
        f = 1. if (f is None or (isinstance(f, float) and np.isnan(f))) else float(f)
        keys.setdefault(int(idx), [str(a), str(vn), []])[2].append((str(n), int(t), round(f, 10)))
    return {i: (k[0], k[1], tuple(sorted(k[2]))) for i, k in keys.items()}


def run_case(rng, tier, case):
    spec, cls, size = gen_case(rng)
    case.feature('class:' + cls, 'interval:' + size, 'freq:' + spec['grid']['freq'], 'tz:' + str(spec['grid']['tz']))
    for t in gen.asset_types(spec):
        case.feature('type:' + t)
    case.key = env.spec_key([spec, size]); case.sample = dict(gen.abbreviate(spec), interval_size=size, coupling=cls); case.spec = {'spec': spec, 'interval_size': size, 'class': cls}
    mip = gen.is_mip(spec)
    tolv = solve.TOL_VAL_MIP if mip else solve.TOL_VAL
    skip = None
    if rng.random() < 0.12:
        # an external system that is not balanced inside the portfolio (documented argument skip_nodes of both set-ups): an import link from 'ext'
        f_ = gen.UNIT_F[spec['grid']['unit']]
        tgt = sorted({n for a in spec['assets'] if a['type'] != 'StructuredAsset' for n in (a.get('nodes') or [])})[0]
        spec['assets'].insert(int(gen.pick(rng, [0, len(spec['assets'])])), {'type': 'Transport', 'name': 'ext_import', 'nodes': ['ext', tgt], 'min_cap': 0., 'max_cap': 3. * f_,
                              'efficiency': 0.9, 'costs_time_series': sorted(spec['prices'])[0], 'costs_const': 0.5, 'wacc': 0.})
        skip = ['ext']; case.feature('skip_nodes')
        case.key = env.spec_key([spec, size, 'skip']); case.spec['spec'] = spec
    ru = flow.run_portfolio(spec, skip_nodes=skip)
    if not ru.ok:
        case.reject('unsplit: ' + flow.describe_error(ru)); return
    built_s = None
    if rng.random() < 0.3:
        # rolling use: the same portfolio object was set up for an earlier horizon (other grid object, other prices) before this split set-up
        try:
            from ..spec import build, build_timegrid
            with attach.paused(), env.quiet():
                built_s = build(spec)
                g0 = dict(spec['grid']); span = pd.Timestamp(g0['end']) - pd.Timestamp(g0['start'])
                back = pd.Timedelta(days=int(np.ceil(span / pd.Timedelta(days=1))) + 7)
                g0['start'] = str(pd.Timestamp(g0['start']) - back); g0['end'] = str(pd.Timestamp(g0['end']) - back)
                if gen.local_ok(g0['start'], g0.get('tz')) and gen.local_ok(g0['end'], g0.get('tz')):
                    tg0 = build_timegrid(g0)
                    pr0 = {k: np.asarray(v, float) for k, v in gen.gen_prices(rng, tg0.T, sorted(spec['prices'])).items()}
                    built_s.portfolio.setup_optim_problem(pr0, tg0)
                    case.feature('earlier_horizon_first')
        except Exception:
            built_s = None        # (the earlier horizon is only history; if it cannot be set up the split runs on fresh objects)
    rs = flow.run_portfolio(spec, split=size, built=built_s, skip_nodes=skip)
    if not rs.ok:
        if rs.stage in ('optimize', 'extract'):
            case.check('split.optimize_and_extract_work', False, interval=size, stage=rs.stage, error=flow.describe_error(rs)); return
        periodic = any('+periodic' in t for t in gen.asset_types(spec))
        if isinstance(rs.error, (AssertionError,)) or 'concatenate str' in str(rs.error) or (periodic and 'unit abbreviation' in str(rs.error)):
            case.reject('split: ' + flow.describe_error(rs)); return       # periodic assets on interval grids: EAO's domain assertion
        case.check('split.setup_works', False, interval=size, error=flow.describe_error(rs)); return
    n_int = len(rs.op.ops)
    case.event('intervals', n_int)
    if not rs.solved:
        # an infeasible interval: the unsplit problem may well be feasible (coupling); no claim except for uncoupled portfolios
        if cls == 'uncoupled' and ru.solved and rs.res != 'inaccurate':
            case.check('split.uncoupled_equals_unsplit', False, unsplit=float(ru.res.value), split=str(rs.res))
        else:
            case.inconc('split not solved: ' + str(rs.res))
        return
    T = rs.built.timegrid.T
    # value = sum of the recorded per-interval optima
    evs = [e for e in rs.rec.of('optimize') if e.ret is not None and not isinstance(e.ret, str)]
    vs = float(sum(e.ret.value for e in evs))
    v_split = float(rs.res.value)
    case.check('split.value_is_sum_of_intervals', len(evs) == n_int and abs(vs - v_split) <= 1e-9 * (1 + abs(vs)), nonvacuous=n_int >= 2, intervals=n_int, sum=vs, value=v_split)
    if len(evs) == n_int and rng.random() < 0.35:
        # the split problem optimised a second time (another solver run on the same object): the interval problems are the ones set up, and the
        # result is the same sum over the same intervals
        from ..canon import problem_diff
        try:
            with env.quiet():
                res2 = rs.op.optimize()
            dd = None
            for k_, (o_, e_) in enumerate(zip(rs.op.ops, evs)):
                if e_.snap is not None:
                    dd = problem_diff(Snap(o_), e_.snap, rtol=1e-12, compare_mapping=False)
                    if dd is not None:
                        dd = 'interval %d: %s' % (k_, dd); break
            case.check('split.interval_problems_unchanged_by_optimize', dd is None, nonvacuous=n_int >= 2, diff=dd)
            if not isinstance(res2, str):
                tol2 = (1e-6 if not gen.is_mip(spec) else 2e-3) * (1 + abs(v_split))
                case.check('split.second_optimize_same_result', len(np.asarray(res2.x)) == len(np.asarray(rs.res.x)) and abs(float(res2.value) - v_split) <= tol2,
                           nonvacuous=n_int >= 2, first=v_split, second=float(res2.value), n_first=len(np.asarray(rs.res.x)), n_second=len(np.asarray(res2.x)))
            else:
                case.check('split.second_optimize_same_result', False, first=v_split, second=str(res2))
        except Exception as e:
            case.check('split.second_optimize_same_result', False, error='%s: %s' % (type(e).__name__, str(e)[:160]))
    if ru.ok and getattr(ru.op, 'map_nodal_restr', None) is not None and getattr(rs.op, 'map_nodal_restr', None) is not None:
        # the same (node, step) balances with and without the split
        nu_ = set((int(t_), str(n_)) for t_, n_ in ru.op.map_nodal_restr); ns_ = set((int(t_), str(n_)) for t_, n_ in rs.op.map_nodal_restr)
        case.check('split.nodal_restrictions_match_unsplit', nu_ == ns_, nonvacuous=n_int >= 2, only_unsplit=sorted(nu_ - ns_)[:4], only_split=sorted(ns_ - nu_)[:4], skip_nodes=skip)
    if mip and len(evs) == n_int and rng.random() < 0.5:
        # the documented relaxed run (make_soft_problem) of the split problem: every interval is solved relaxed - the value is the sum of the
        # intervals' relaxed optima (independent LP solver on the interval problems as set up)
        try:
            with env.quiet(), attach.paused():
                res_soft = rs.op.optimize(make_soft_problem=True)
            refs = [solve.solve_op(e_.snap, relax=True, time_limit=30.) for e_ in evs]
            if not isinstance(res_soft, str) and all(q_['status'] == 'optimal' for q_ in refs):
                want_ = float(sum(q_['value'] for q_ in refs))
                case.check('split.relaxed_value_is_sum_of_relaxed_intervals', abs(float(res_soft.value) - want_) <= solve.TOL_VAL * (1 + abs(want_)), nonvacuous=abs(want_ - v_split) > 1e-6 * (1 + abs(v_split)),
                           relaxed_split=float(res_soft.value), sum_of_relaxed_interval_optima=want_, exact_split=v_split)
            # ... and the relaxed run leaves the problem what it was: the exact run afterwards gives the exact value again
            with env.quiet(), attach.paused():
                res_hard = rs.op.optimize()
            if not isinstance(res_hard, str):
                case.check('split.exact_run_after_relaxed_run_same_value', abs(float(res_hard.value) - v_split) <= solve.TOL_VAL_MIP * (1 + abs(v_split)), first=v_split, after_relaxed_run=float(res_hard.value))
        except Exception as e:
            case.check('split.relaxed_run_works', False, error='%s: %s' % (type(e).__name__, str(e)[:160]))
    ms = rs.op.mapping
    case.check('split.steps_on_original_grid', len(ms) == 0 or (int(ms['time_step'].min()) >= 0 and int(ms['time_step'].max()) < T), T=T)
    xs = np.asarray(rs.res.x, float)
    flowed = bool(np.abs(xs).max() > 1e-6) if len(xs) else False
    if mon_balance_output(case, rs.built.portfolio, rs.out, clause='split.balance_on_original_grid', skip_nodes=skip) is False and rs.out.get('dispatch') is None:
        pass
    transferable = cls in ('uncoupled', 'storage')
    if ru.ok and not transferable:
        # WHERE the assets act is the same with and without the split, whatever couples the intervals
        # (the size variable of a scaled asset is booked at the first step of whatever grid the problem is set up on: not a place where the asset acts)
        cells_ = lambda m_: set(zip(m_[m_['type'] != 'size']['asset'].astype(str), m_[m_['type'] != 'size']['node'].astype(str), m_[m_['type'] != 'size']['time_step'].astype(int)))
        cu = cells_(ru.op.mapping); cs_ = cells_(ms)
        case.check('split.rows_match_unsplit', cu == cs_, nonvacuous=n_int >= 2, only_unsplit=sorted(cu - cs_)[:4], only_split=sorted(cs_ - cu)[:4])
    if transferable and ru.ok:
        su = Snap(ru.op)
        ku = row_key(su.mapping); ks = row_key(ms)
        inv_s = {}
        for i, k in ks.items():
            inv_s.setdefault(k, []).append(i)
        same_rows = sorted(ku.values()) == sorted(ks.values())
        # what must agree is WHERE the assets act: the (asset, node, step) rows on the original grid. How many variables an asset uses for a step may
        # differ legitimately (a contract whose capacity has one sign inside an interval needs one variable there, two over the whole horizon)
        cells = lambda m_: set(zip(m_[m_['type'] != 'size']['asset'].astype(str), m_[m_['type'] != 'size']['node'].astype(str), m_[m_['type'] != 'size']['time_step'].astype(int)))
        case.check('split.rows_match_unsplit', cells(su.mapping) == cells(ms), nonvacuous=n_int >= 2, n_unsplit=len(ku), n_split=len(ks),
                   only_unsplit=sorted(cells(su.mapping) - cells(ms))[:4], only_split=sorted(cells(ms) - cells(su.mapping))[:4])
        if same_rows and len(set(ku.values())) == len(ku):
            xt = np.zeros(len(su.c))
            for i, k in ku.items():
                xt[i] = xs[inv_s[k][0]]
            r = solve.residuals(su, xt)
            worst = max(r['bound'], r['rows'])
            case.check('split.solution_feasible_in_unsplit', worst <= solve.TOL_FEAS, nonvacuous=flowed and n_int >= 2, bound=r['bound'], rows=r['rows_by_class'], interval=size)
            vt = float(-np.dot(su.c, xt))
            case.check('split.value_attained_in_unsplit', abs(vt - v_split) <= tolv * (1 + abs(v_split)), nonvacuous=flowed and n_int >= 2, minus_c_unsplit_x_split=vt, split_value=v_split,
                       wacc=[a.get('wacc', 0) for a in spec['assets']])
    one_step_vars = cls in ('uncoupled', 'storage') and not any(a.get('freq') or a.get('periodicity') or a['type'] == 'OrderBook' for a in spec['assets'])
    if ru.solved and rs.solved and one_step_vars and rng.random() < 0.3:      # (only where every variable acts in ONE step: a variable is pinned if any of its steps is in the window)
        # a window fixed to the previous solution (given as a date that IS a grid point) pins the same (asset, node, step) cells with and without the split
        pts_ = gen.grid_points(spec['grid'])
        dq = pts_[int(rng.integers(0, len(pts_)))]
        dq = dq if rng.random() < 0.5 else dq.to_pydatetime()
        def pinned_cells(split_):
            r0 = ru if split_ is None else rs
            rfx = flow.run_portfolio(spec, split=split_, do_optimize=False, fix_time_window={'I': dq, 'x': np.asarray(r0.res.x, float).copy()})
            if not rfx.ok:
                return None
            ops0 = [r0.op] if split_ is None else r0.op.ops; ops1 = [rfx.op] if split_ is None else rfx.op.ops
            l0 = np.concatenate([np.asarray(o.l, float) for o in ops0]); u0 = np.concatenate([np.asarray(o.u, float) for o in ops0])
            l1 = np.concatenate([np.asarray(o.l, float) for o in ops1]); u1 = np.concatenate([np.asarray(o.u, float) for o in ops1])
            if len(l0) != len(l1):
                return None
            newly = (l1 == u1) & ~((l0 == u0) & (l0 == l1))
            m_ = rfx.op.mapping
            idx_ = set(np.where(newly)[0].tolist())
            return set((str(a_), str(n_), int(t_)) for i_, a_, n_, t_ in zip(m_.index, m_['asset'], m_['node'], m_['time_step']) if int(i_) in idx_)
        try:
            cu_, cs2_ = pinned_cells(None), pinned_cells(size)
            if cu_ is not None and cs2_ is not None:
                # (a variable whose previous value happens to sit on a bound that is already fixed is not "newly" pinned on either side)
                steps_u = {c[2] for c in cu_}; steps_s = {c[2] for c in cs2_}
                case.check('split.fixed_window_covers_same_steps', steps_u == steps_s, nonvacuous=bool(steps_u), date=str(dq), only_unsplit=sorted(steps_u - steps_s)[:5], only_split=sorted(steps_s - steps_u)[:5])
        except Exception as e:
            case.event('fixed_window_probe_failed:' + type(e).__name__)
    if rs.solved and rng.random() < 0.3:
        # rolling re-planning with the split: the first part of the horizon (reaching beyond the first interval) fixed to the split solution just found - the
        # variables of the window carry exactly those values (each interval takes ITS part of the solution vector)
        try:
            kq = int(rng.integers(max(1, T // 3), T + 1))
            xg = np.asarray(rs.res.x, float).copy()
            rfx2 = flow.run_portfolio(spec, split=size, do_optimize=False, fix_time_window={'I': np.arange(T) < kq, 'x': xg.copy()}, skip_nodes=skip)
            if rfx2.ok and len(rfx2.op.ops) == n_int:
                l1 = np.concatenate([np.asarray(o.l, float) for o in rfx2.op.ops]); u1 = np.concatenate([np.asarray(o.u, float) for o in rfx2.op.ops])
                m2 = rfx2.op.mapping
                if len(l1) == len(xg) and len(m2):
                    inw = np.zeros(len(xg), bool); inw[np.unique(np.asarray(m2.index)[(m2['time_step'] < kq).values]).astype(int)] = True
                    okv = bool(np.all(np.abs(l1[inw] - xg[inw]) <= 1e-9 * (1 + np.abs(xg[inw]))) and np.all(np.abs(u1[inw] - xg[inw]) <= 1e-9 * (1 + np.abs(xg[inw]))))
                    badv = np.where(inw & ((np.abs(l1 - xg) > 1e-9 * (1 + np.abs(xg))) | (np.abs(u1 - xg) > 1e-9 * (1 + np.abs(xg)))))[0]
                    case.check('split.fixed_window_carries_given_values', okv, nonvacuous=bool(inw.any()) and kq > 1, steps_fixed=kq, n_window_vars=int(inw.sum()), first_bad=badv[:4].tolist(),
                               l=l1[badv[:3]].tolist(), given=xg[badv[:3]].tolist())
            elif not rfx2.ok:
                case.check('split.fixed_window_setup_works', False, error=flow.describe_error(rfx2), steps_fixed=kq)
        except Exception as e:
            case.event('fixed_values_probe_failed:' + type(e).__name__)
    if ru.solved:
        v_un = float(ru.res.value)
        if cls == 'uncoupled':
            case.check('split.uncoupled_equals_unsplit', abs(v_split - v_un) <= tolv * (1 + abs(v_un)), nonvacuous=n_int >= 2, split=v_split, unsplit=v_un, interval=size)
        elif cls == 'storage':
            case.check('split.storage_coupled_not_above_unsplit', v_split <= v_un + tolv * (1 + abs(v_un)), nonvacuous=n_int >= 2, split=v_split, unsplit=v_un, interval=size)
    case.nontrivial = n_int >= 2 and flowed


def _is_f43(v, rec):
    # Storage with block_size: the block boundaries are generated with pd.date_range(start = window start - one block, freq = block_size) in the grid's
    # zone; if the (interval) grid starts in the hour after the spring-forward gap, a calendar-day step from "start - 1 day" lands on the wall-clock
    # time that does not exist on the switch day -> pandas raises NonExistentTimeError inside the storage set-up (the unsplit horizon works)
    # (autumn: the same step lands on the wall-clock hour that exists twice -> AmbiguousTimeError)
    if v.get('clause') != 'split.setup_works' or not any(k in str(v.get('error', '')) for k in ('NonExistentTimeError', 'AmbiguousTimeError')):
        return False
    spec = ((rec.get('spec') or {}).get('spec') or {})
    def has_blocks(a):
        return bool(a.get('block_size')) or any(has_blocks(x) for x in a.get('assets', [])) or ('base' in a and has_blocks(a['base']))
    return any(has_blocks(a) for a in spec.get('assets', []))


def _is_f60(v, rec):
    # periodic asset: __make_periodic__ numbers periods / durations from pd.date_range(first point - one period (an ABSOLUTE Timedelta), ..., freq = period),
    # which for calendar frequencies ('d') steps in wall-clock time; an interval grid that starts less than one duration after a clock change makes that range
    # start on the wall-clock hour that exists twice (autumn) or not at all (spring) -> pandas raises inside the set-up of the interval, the unsplit horizon
    # (starting earlier) works
    if v.get('clause') != 'split.setup_works' or not any(k in str(v.get('error', '')) for k in ('NonExistentTimeError', 'AmbiguousTimeError')):
        return False
    spec = ((rec.get('spec') or {}).get('spec') or {})
    def has_periodic(a):
        return bool(a.get('periodicity')) or any(has_periodic(x) for x in a.get('assets', [])) or ('base' in a and has_periodic(a['base']))
    return any(has_periodic(a) for a in spec.get('assets', []))


CLASSIFIERS = {'c14_block_storage_interval_starts_after_dst_gap': _is_f43, 'c14_periodic_asset_interval_starts_after_clock_change': _is_f60}
