"""C11 JSON round trip preserves every asset and portfolio."""
import copy, json
import numpy as np
import pandas as pd
from .. import env, attach, gen, flow
from ..spec import build, build_timegrid, build_asset, Built
from ..canon import Snap, problem_diff
from .c10 import add_dicts, variant_forms

PROPERTY = 'C11'
CASES = {'quick': 468, 'thorough': 3744}
BUDGET_S = {'quick': 240, 'thorough': 2400}
RULE = ('case = one portfolio (every asset class incl. Scaled, Structured, Linked, CHP variants, OrderBook as dict or DataFrame; parameters as '
        'scalars, interval dictionaries of lists / numpy arrays / DatetimeIndex, date vs datetime vs Timestamp, naive and zone-aware grids), saved '
        'with the real to_json both fresh and after use (a set-up / optimise history first), loaded with load_from_json, saved again; also every '
        'top-level asset on its own. Clauses: load succeeds; second JSON text equals the first; the loaded object produces the identical problem '
        'as a freshly built one for the original grid/prices and a second random grid/prices; a portfolio\'s own grid comes back with the same points, '
        'zone and step lengths. Non-trivial: portfolio with >=3 assets; distinct = spec hashes.')
ASSUMPTIONS = ['problems are compared exactly incl. mapping', 'the second (grid, prices) pair may be rejected by domain assertions identically for both objects (counted, no claim)']
MIN_NONVACUOUS = {'quick': {'json.load_succeeds': 1000, 'json.resave_identical': 1000, 'json.same_problem_after_load': 625, 'json.grid_preserved': 150},
                  'thorough': {'json.load_succeeds': 8000, 'json.same_problem_after_load': 5000, 'json.grid_preserved': 1000}}


def linked_spec(rng, g, f, node, key):
    a1 = {'type': 'CHPAsset', 'name': 'lk_a1', 'nodes': [node, 'lk_heat'], 'price': key, 'min_cap': 2. * f, 'max_cap': 5. * f, 'extra_costs': 1.}
    a2 = {'type': 'CHPAsset', 'name': 'lk_a2', 'nodes': [node, 'lk_heat'], 'price': key, 'min_cap': 1. * f, 'max_cap': 8. * f, 'extra_costs': 0.5}
    hm = {'type': 'SimpleContract', 'name': 'lk_heatmkt', 'nodes': ['lk_heat'], 'price': key, 'min_cap': -30. * f, 'max_cap': 30. * f, 'extra_costs': 0.3}
    return {'type': 'LinkedAsset', 'name': 'linked', 'nodes': [node, 'lk_heat'], 'assets': [a1, a2], 'asset1_variable': ['lk_a2', 'disp', node],
            'asset2_variable': ['lk_a1', 'bool_on', None], 'time_back': 0, 'time_forward': 0}, hm


def problems(obj_portf, spec, g, prices):
    tg = build_timegrid(g)
    return Snap(obj_portf.setup_optim_problem({k: np.asarray(v, float) for k, v in prices.items()}, tg))


def run_case(rng, tier, case):
    import eaopack.serialization as ser
    from eaopack.portfolio import Portfolio
    base = gen.gen_mixed_portfolio(rng, kinds=[k for k in gen.ALL_KINDS if k != 'linked'], grid_kw={'steps': (4, 16)}, n_assets=(2, 5), n_nodes=(1, 3))      # (LinkedAsset: added below, known finding F7d)
    spec = variant_forms(rng, add_dicts(rng, base))
    g = spec['grid']; f = gen.UNIT_F[g['unit']]
    if rng.random() < 0.08:
        la, hm = linked_spec(rng, g, f, 'n0', sorted(spec['prices'])[0])
        spec['assets'] += [la, hm]
    for a in spec['assets']:
        if a['type'] == 'OrderBook' and rng.random() < 0.5 and g['tz'] is None:     # (a DataFrame drops the zone of its dates: usable on naive grids only)
            a['_orders_as_df'] = True
    if g['tz'] is not None and rng.random() < 0.15:
        g['x_zone_in_dates'] = True; case.feature('grid_zone_in_dates_only')
        # such a grid knows no zone name: naive asset dates cannot be compared with its points (EAO raises), so the assets state their dates zone-aware too
        def _aware(a):
            a['_date_form'] = 'aware_utc' if a.get('_date_form') != 'aware_other' else 'aware_other'
            for x in a.get('assets', []) + ([a['base']] if a.get('base') else []):
                _aware(x)
        for a in spec['assets']:
            _aware(a)
    for a in spec['assets']:
        if a['type'] in ('Plant', 'CHPAsset') and rng.random() < 0.4:
            a['freq'] = g['freq']           # a plant may state the frequency it is meant for (it must equal the grid's, compared as text)
    if rng.random() < 0.12:
        # open-ended assets the way users write them: an end far in the future / a start far in the past (outside the nanosecond range of pandas)
        cand = [a for a in spec['assets'] if a['type'] in ('SimpleContract', 'Contract', 'Transport', 'Storage', 'Plant') and not a.get('freq') and not a.get('periodicity')
                and a.get('_date_form', 'datetime') in ('datetime', 'timestamp')]
        if cand:
            a = cand[int(rng.integers(len(cand)))]
            if a.get('end') is None and rng.random() < 0.7:
                a['end'] = '2999-12-31 00:00:00'; case.feature('end_far_future')
            elif a.get('start') is None:
                a['start'] = '1650-06-01 12:00:00'; case.feature('start_far_past')
    plain = [a for a in spec['assets'] if a['type'] in ('SimpleContract', 'Contract') and not isinstance(a.get('extra_costs'), (dict, str)) and not a.get('freq') and not a.get('periodicity')
             and '_container' not in a and a.get('_date_form', 'datetime') in ('datetime', 'timestamp')]
    if plain and rng.random() < 0.15:
        a = plain[int(rng.integers(len(plain)))]
        d0 = (pd.Timestamp(g['start']) - pd.Timedelta(days=2)).normalize()
        days = [str(d0 + pd.Timedelta(days=q)) for q in range(6)]
        if g['tz'] is not None and not g.get('x_zone_in_dates') and all(gen.local_ok(x, g['tz']) for x in days):
            # fees per calendar day, the days given as a zone-aware daily index (pd.date_range(..., freq='D', tz=...)) - often across a clock change
            a['extra_costs'] = {'start': days, 'values': [0.1, 0.2, 0.3, 0.4, 0.5, 0.6]}; a['_container'] = 'dtrange_tz'
            case.feature('zone_aware_daily_index')
        else:
            # gaps in a fee table (NaN = no entry: the documented default applies) / an unlimited quantity (inf)
            a['extra_costs'] = {'start': days, 'values': [0.1, float('nan'), 0.3, 0.4, float('nan'), 0.6]}
            case.feature('nan_in_interval_values')
    takers = [a for a in spec['assets'] if a['type'] == 'Contract' and not a.get('min_take') and not a.get('max_take') and not a.get('freq') and not a.get('periodicity')]
    if takers and rng.random() < 0.1:
        a = takers[int(rng.integers(len(takers)))]
        a['max_take'] = {'start': [str((pd.Timestamp(g['start']) - pd.Timedelta(days=3)).normalize() + pd.Timedelta(hours=12))],
                         'end': [str((pd.Timestamp(g['end']) + pd.Timedelta(days=3)).normalize() + pd.Timedelta(hours=12))], 'values': [float('inf')]}
        case.feature('unlimited_take_inf')
    if g['tz'] in ('Europe/Berlin', 'America/New_York', 'Asia/Kolkata') and not g.get('x_zone_in_dates') and rng.random() < 0.25:
        # dates given as python datetimes with a standard-library zone (zoneinfo) instead of a pandas / pytz zone
        for a in spec['assets']:
            if a.get('_date_form') in ('aware_utc', 'aware_other') or (a.get('_date_form', 'datetime') in ('datetime', 'timestamp') and '_container' not in a and rng.random() < 0.5):
                a['_date_form'] = 'aware_zoneinfo'
        case.feature('dates_with_zoneinfo_zone')
    for t in gen.asset_types(spec):
        case.feature('type:' + t)
    own_grid = rng.random() < 0.6
    used = rng.random() < 0.5
    case.feature('own_grid' if own_grid else 'no_grid', 'after_use' if used else 'fresh', 'tz:' + str(g['tz']))
    sp = gen.strip_private(spec)
    case.key = env.spec_key([sp, own_grid, used]); case.sample = dict(gen.abbreviate(spec), own_grid=own_grid, saved_after_use=used); case.spec = spec
    g2 = gen.gen_grid(rng, steps=(3, 12), anchors=[str(pd.Timestamp(g['start']).normalize())[:10]])
    pr2 = gen.gen_prices(rng, len(gen.grid_points(g2)), sorted(spec['prices']))
    with env.quiet():
        try:
            b = build(spec); fresh = build(spec)
        except Exception as e:
            case.reject('build: %s %s' % (type(e).__name__, str(e)[:100])); return
        if own_grid:
            b.portfolio.set_timegrid(b.timegrid)
        if used:
            try:
                o = b.portfolio.setup_optim_problem(b.prices, b.timegrid)
                if rng.random() < 0.5:
                    o.optimize()
            except Exception as e:
                case.reject('use before save: %s %s' % (type(e).__name__, str(e)[:100])); return
        objs = [('portfolio', b.portfolio)] + [('asset:' + type(a).__name__, a) for a in b.portfolio.assets]
        for label, o in objs:
            who = {'object': label, 'name': getattr(o, 'name', None), 'after_use': used}
            try:
                s1 = ser.to_json(o)
            except Exception as e:
                case.check('json.save_succeeds', False, **who, error='%s: %s' % (type(e).__name__, str(e)[:160])); continue
            try:
                o2 = ser.load_from_json(s1)
            except Exception as e:
                case.check('json.load_succeeds', False, **who, error='%s: %s' % (type(e).__name__, str(e)[:160])); continue
            case.check('json.load_succeeds', type(o2).__name__ == type(o).__name__, **who, loaded=type(o2).__name__)
            try:
                s2 = ser.to_json(o2)
                same = (s1 == s2)
                first = None
                if not same:
                    l1, l2 = s1.splitlines(), s2.splitlines()
                    for x, y in zip(l1, l2):
                        if x != y:
                            first = [x.strip()[:80], y.strip()[:80]]; break
                    if first is None:
                        first = ['length', len(l1), len(l2)]
                case.check('json.resave_identical', same, **who, first_difference=first)
            except Exception as e:
                case.check('json.resave_identical', False, **who, error='%s: %s' % (type(e).__name__, str(e)[:160]))
            if label == 'portfolio' and own_grid:
                tg1 = b.timegrid; tg2_ = getattr(o2, 'timegrid', None)
                ok = tg2_ is not None and len(tg2_.timepoints) == len(tg1.timepoints) and all(x == y for x, y in zip(tg1.timepoints, tg2_.timepoints)) \
                    and str(tg2_.tz) == str(tg1.tz) and np.array_equal(tg1.dt, tg2_.dt) and tg2_.main_time_unit == tg1.main_time_unit
                case.check('json.grid_preserved', bool(ok), **who, tz=str(tg1.tz), tz_loaded=None if tg2_ is None else str(tg2_.tz))
                if ok:
                    # anything that could be optimised before saving can be optimised after loading (grid's own zone handles naive interval data)
                    try:
                        s_ref = Snap(fresh.portfolio.setup_optim_problem(fresh.prices, build_timegrid(g)))
                    except Exception as e:
                        s_ref = None; case.event('original_not_optimisable_either')
                    if s_ref is not None:
                        try:
                            s_own = Snap(o2.setup_optim_problem({k: np.asarray(v, float) for k, v in spec['prices'].items()}))
                            d = problem_diff(s_own, s_ref, rtol=0., compare_mapping=True)
                            case.check('json.loaded_portfolio_usable_with_own_grid', d is None, **who, diff=d)
                        except Exception as e:
                            case.check('json.loaded_portfolio_usable_with_own_grid', False, **who, error='%s: %s' % (type(e).__name__, str(e)[:160]))
            # identical problem for (original grid, prices) and a second pair
            P2 = o2 if label == 'portfolio' else Portfolio([o2])
            Pf = fresh.portfolio if label == 'portfolio' else Portfolio([fresh.assets[o.name]])
            for gg, pp, tag in ((g, spec['prices'], 'original'), (g2, pr2, 'second')):
                try:
                    sf = problems(Pf, spec, gg, pp)
                except Exception as e:
                    case.event('pair_rejected_for_fresh'); continue
                try:
                    sl = problems(P2, spec, gg, pp)
                except Exception as e:
                    case.check('json.same_problem_after_load', False, **who, pair=tag, error='%s: %s' % (type(e).__name__, str(e)[:160])); continue
                d = problem_diff(sl, sf, rtol=0., compare_mapping=True)
                case.check('json.same_problem_after_load', d is None, **who, pair=tag, diff=d)
        # the documented one-call routes built on the JSON form: run_from_json (load + set_timegrid + optimise + extract) and
        # set_param / get_param (object -> JSON tree -> object); judged against the freshly built portfolio
        if rng.random() < (0.5 if tier == 'quick' else 0.7) and not case.violations:
            import eaopack.io as eio
            prg = {k: np.asarray(v, float) for k, v in spec['prices'].items()}
            try:
                s_port = ser.to_json(b.portfolio)
                opf = fresh.portfolio.setup_optim_problem(dict(prg), build_timegrid(g))
                rf = opf.optimize()
                vf = None if isinstance(rf, str) else float(rf.value)
            except Exception as e:
                s_port = None; case.event('direct_run_rejected')
            if s_port is not None:
                try:
                    out = ser.run_from_json(json_str=s_port, prices=dict(prg), timegrid=None if own_grid else build_timegrid(g))
                    vl = None if not isinstance(out, dict) else float(np.asarray(out['summary'].loc['value']).ravel()[0])
                    ok = (vf is None) == (vl is None) and (vf is None or abs(vf - vl) <= 2e-4 * (1 + abs(vf)))
                    case.check('json.run_from_json_equals_direct', ok, direct=vf, from_json=vl, own_grid=own_grid)
                    if own_grid and rng.random() < 0.6:
                        # "for any prices and grid": the saved portfolio carries its own grid, the caller passes ANOTHER one
                        prg2 = {k: np.asarray(v, float) for k, v in pr2.items()}
                        try:
                            f2 = build(spec)
                            r2_ = f2.portfolio.setup_optim_problem(dict(prg2), build_timegrid(g2)).optimize()
                            v2 = None if isinstance(r2_, str) else float(r2_.value)
                        except Exception:
                            v2 = 'rejected'
                        if v2 != 'rejected':
                            out2 = ser.run_from_json(json_str=s_port, prices=dict(prg2), timegrid=build_timegrid(g2))
                            vl2 = None if not isinstance(out2, dict) else float(np.asarray(out2['summary'].loc['value']).ravel()[0])
                            ok2 = (v2 is None) == (vl2 is None) and (v2 is None or abs(v2 - vl2) <= 2e-4 * (1 + abs(v2)))
                            case.check('json.run_from_json_equals_direct', ok2, direct=v2, from_json=vl2, own_grid=own_grid, other_grid_given=True)
                except Exception as e:
                    case.check('json.run_from_json_equals_direct', False, error='%s: %s' % (type(e).__name__, str(e)[:160]), own_grid=own_grid)
                try:
                    keys, tree = eio.get_params_tree(b.portfolio)
                    paths = [k for k in keys if isinstance(k, list) and len(k) >= 3 and k[0] == 'assets']
                    if paths:
                        path = paths[int(rng.integers(len(paths)))]
                        val = eio.get_param(b.portfolio, path)
                        o3 = eio.set_param(b.portfolio, path, val)
                        sl = problems(o3, spec, g, spec['prices']); sf = Snap(opf)
                        d = problem_diff(sl, sf, rtol=0., compare_mapping=True)
                        case.check('json.set_param_identity_same_problem', d is None, path=str(path)[:80], diff=d)
                except Exception as e:
                    case.check('json.set_param_identity_same_problem', False, error='%s: %s' % (type(e).__name__, str(e)[:160]))
    if rng.random() < 0.3:
        # the FILE variants: several objects saved one after the other under the same file name (a revised portfolio replaces the old file);
        # what is loaded is what was saved last
        import tempfile, shutil, os
        d_ = tempfile.mkdtemp(prefix='eaomon_c11_')
        try:
            fn = os.path.join(d_, 'saved.json')
            with env.quiet():
                for i_ in [int(q) for q in rng.permutation(len(objs))[:3]]:
                    label, o = objs[i_]
                    try:
                        s_str = ser.to_json(o); ser.load_from_json(s_str)
                    except Exception:
                        continue                     # (judged above)
                    try:
                        ser.to_json(o, fn)
                        o_l = ser.load_from_json(file_name=fn)
                        case.check('json.file_holds_what_was_saved_last', ser.to_json(o_l) == s_str, object=label, name=getattr(o, 'name', None),
                                   loaded=type(o_l).__name__ + ':' + str(getattr(o_l, 'name', None)))
                    except Exception as e:
                        case.check('json.file_holds_what_was_saved_last', False, object=label, error='%s: %s' % (type(e).__name__, str(e)[:160]))
        finally:
            shutil.rmtree(d_, ignore_errors=True)
    case.nontrivial = len(spec['assets']) >= 3


def _is_f7d(v, rec):
    # LinkedAsset: the JSON holds resolved attributes (asset1, asset2, variable names, node names) instead of the constructor's
    # asset1_variable / asset2_variable tuples, so load_from_json cannot rebuild it (also when nested in a portfolio)
    if v.get('clause') not in ('json.load_succeeds',):
        return False
    return 'LinkedAsset' in str(v.get('error', '')) and 'asset1_variable' in str(v.get('error', ''))


CLASSIFIERS = {'c11_linked_asset_not_loadable': _is_f7d}
