"""C13 Coarse asset frequency and periodicity equal the fine problem plus equalities."""
import copy
import numpy as np
import pandas as pd
import scipy.sparse as sp
from pandas.tseries.frequencies import to_offset
from .. import env, attach, gen, flow, solve
from ..spec import Clock, build
from ..canon import Snap

PROPERTY = 'C13'
CASES = {'quick': 432, 'thorough': 3456}
BUDGET_S = {'quick': 240, 'thorough': 2400}
RULE = ('case = a portfolio with one subject asset of a class accepting the option - SimpleContract, Contract (with take), Transport, '
        'ExtendedTransport, Storage, MultiCommodityContract (Plant/CHP for periodicity) - in its one-variable and two-variable forms (spread, costs, '
        'efficiency, two nodes), given either a coarser own frequency (compatible pairs, windows aligned / unaligned / straddling the horizon, daily '
        'coarse steps over a DST switch) or a periodicity (+ duration), plus markets and companions; optimised through the real code. Clauses: '
        '(i) dispatch rate constant within each coarse interval / equal dispatch at equal positions of the periods of a duration (intervals and '
        'positions from an independent clock); (ii) optimal value = value of the ordinary FINE problem of the same portfolio (subject asset without '
        'the option, its prices pre-averaged over the merged steps as documented) with exactly those equalities appended by the harness, solved '
        'with HiGHS; (iii) set-up works for every class / variable form. Non-trivial: the subject asset carries flow; distinct = spec hashes.')
ASSUMPTIONS = ['coarse assets use wacc = 0 and no holding cost (EAO discounts / charges a coarse step at its first fine step - a documented simplification)',
               'periodic assets use constant capacities (EAO averages bounds over merged steps) and grids with equal steps (EAO rejects unequal periods)',
               'period positions and durations are counted from the grid start; Timedelta-like period strings only',
               'value tolerance 1e-5 relative']
MIN_NONVACUOUS = {'quick': {'coarse.constant_rate': 62, 'coarse.value_equals_fine_plus_equalities': 62, 'periodic.repeats': 50,
                            'periodic.value_equals_fine_plus_equalities': 50, 'option.setup_works': 250},
                  'thorough': {'coarse.constant_rate': 600, 'coarse.value_equals_fine_plus_equalities': 600, 'periodic.repeats': 450,
                               'periodic.value_equals_fine_plus_equalities': 450}}
SUBJECTS = ['SimpleContract', 'Contract', 'Contract', 'Transport', 'ExtendedTransport', 'Storage', 'Storage', 'MultiCommodityContract']


def gen_case(rng):
    mode = gen.pick(rng, ['coarse', 'coarse', 'coarse', 'periodic', 'periodic'])
    if mode == 'coarse':
        dst = rng.random() < 0.25
        g = gen.gen_grid(rng, freqs=['h', 'h', '30min', '2h', '15min'] if not dst else None, steps=(8, 40), dst=dst, hour_offsets=(0, 0, 6, 3))
        if dst and g['freq'] == 'd' and rng.random() < 0.4:
            # hourly grid over the switch: a DAILY coarse step of 23 / 25 hours
            g = gen.gen_grid(rng, freqs=['h'], steps=(30, 50), tzs=['CET'], anchors=['2021-03-27', '2021-10-30'], hour_offsets=(0,))
        # (else: daily grid over the switch - fine steps of unequal length inside a coarse step of 2, 3 or 7 days)
    else:
        # (no daylight-saving switch in or next to the horizon: EAO rejects unequal periods, and places period / duration boundaries by
        #  absolute arithmetic from the grid start, which a switch on the day before shifts by an hour)
        g = gen.gen_grid(rng, freqs=['h', 'h', '2h', '30min'], steps=(12, 50), hour_offsets=(0, 6), tzs=[None, None, 'Asia/Kolkata', 'CET'],
                         anchors=['2021-01-10', '2020-12-30', '2021-06-29', '2022-01-30', '2020-02-28'])
    f = gen.UNIT_F[g['unit']]
    T = len(gen.grid_points(g))
    nn = int(rng.integers(2, 4)); nodes = ['n%d' % i for i in range(nn)]
    assets = []; pk = []
    for i, n in enumerate(nodes):
        assets.append(gen.gen_market(rng, 'mkt%d' % i, n, f, 'p%d' % i, wacc=0.)); pk.append('p%d' % i)
    cls = gen.pick(rng, SUBJECTS)
    if mode == 'periodic' and rng.random() < 0.12:
        cls = 'Plant'
    key = 'qx'; pk.append(key)
    window = (mode == 'coarse')
    if cls in ('SimpleContract', 'Contract'):
        X = gen.gen_contract(rng, g, 'X', nodes[0], f, key, window=window, take=(mode == 'coarse'), simple=(cls == 'SimpleContract'), dict_caps=False)
    elif cls in ('Transport', 'ExtendedTransport'):
        X = gen.gen_transport(rng, g, 'X', nodes[0], nodes[1], f, cost_key=key, window=window, extended=(cls == 'ExtendedTransport'), take=(mode == 'coarse'))
    elif cls == 'Storage':
        X = gen.gen_storage(rng, g, 'X', [nodes[0]] if rng.random() < 0.6 else nodes[:2], f, price_key=key, window=window)
        X['cost_store'] = 0.
        if X['size'] == 0:
            X['size'] = 10.
    elif cls == 'MultiCommodityContract':
        X = gen.gen_multicommodity(rng, g, 'X', nodes[:2], f, key)
        if mode == 'periodic':
            X['start'] = None; X['end'] = None; X.pop('min_take', None); X.pop('max_take', None)
    else:
        X = gen.gen_plant(rng, g, 'X', [nodes[0]], f, key, simple=True, ramp_profiles=False)
    X['wacc'] = 0.
    if mode == 'coarse':
        if g['freq'] not in gen.COARSE_OF:
            g['freq'] = 'h'
        X['freq'] = gen.pick(rng, gen.COARSE_OF[g['freq']])
        # windows: aligned with the horizon, unaligned inside, or straddling the horizon
        if rng.random() < 0.5:
            s, e, k = gen.gen_window(rng, g, kinds=['straddle_start', 'straddle_end', 'inside', 'start_only', 'end_only'])
            X['start'], X['end'] = s, e
    else:
        per, dur = gen.pick(rng, gen.PERIOD_OF.get(g['freq'], [('4h', None)]))
        X['periodicity'] = per
        if dur:
            X['periodicity_duration'] = dur
        X.pop('start', None); X.pop('end', None)
        if cls in ('Contract', 'SimpleContract', 'MultiCommodityContract') and rng.random() < 0.3:
            # a periodic asset that starts inside the horizon (periods and durations still count from the grid start, not from the asset's start)
            s_, e_, _k = gen.gen_window(rng, g, kinds=['start_only', 'inside'])
            X['start'], X['end'] = s_, e_
    assets.append(X)
    for j in range(int(rng.integers(0, 3))):
        k2 = 'q%d' % j; pk.append(k2)
        assets.append(gen.gen_contract(rng, g, 'c%d' % j, gen.pick(rng, nodes), f, k2, take=False))
    if mode == 'coarse' and rng.random() < 0.3:
        # a second asset with the SAME own frequency but another lifetime (it keeps the option on both sides of the comparison)
        k2 = 'qcomp'; pk.append(k2)
        comp = gen.gen_contract(rng, g, 'comp', gen.pick(rng, nodes), f, k2, window=False, take=False, simple=True, dict_caps=False)
        comp['freq'] = X['freq']; comp['wacc'] = 0.
        comp['start'], comp['end'], _k = gen.gen_window(rng, g, kinds=['inside', 'straddle_start', 'straddle_end', 'start_only', 'end_only'])
        assets.append(comp)
    perm = rng.permutation(len(assets)); assets = [assets[int(i)] for i in perm]
    return {'grid': g, 'assets': assets, 'prices': gen.gen_prices(rng, T, sorted(set(pk)))}, mode, cls


def coarse_groups(spec, X, ck):
    """independent model of the coarse intervals: anchored at the asset's start (else the grid start), steps of X.freq,
    the incomplete last interval kept. -> list of lists of fine steps."""
    W = ck.window(X.get('start'), X.get('end'))
    if not W:
        return []
    anchor = ck.ts(X['start']) if X.get('start') is not None else ck.start
    wend = ck.ts(X['end']) if X.get('end') is not None else ck.end
    pts = list(pd.date_range(start=anchor, end=wend, freq=X['freq']))
    if not pts or pts[-1] < wend:
        pts.append(wend)
    groups = []
    for a, b in zip(pts[:-1], pts[1:]):
        G = [t for t in W if a <= ck.points[t] < b]
        if G:
            groups.append(G)
    return groups


def period_classes(spec, X, ck):
    """{(duration index, position in period): [steps]} counted from the grid start."""
    per = pd.Timedelta(to_offset(X['periodicity']))
    dur = pd.Timedelta(to_offset(X['periodicity_duration'])) if X.get('periodicity_duration') else None
    t0 = ck.points[0]
    step = ck.points[1] - ck.points[0]
    out = {}
    for t in range(ck.T):
        off = ck.points[t] - t0
        d = int(off // dur) if dur is not None else 0
        # periods restart at every period boundary counted from the grid start
        pos = int((off % per) // step)
        out.setdefault((d, pos), []).append(t)
    return out


def subject_vars(r, name):
    """-> (offset of X in the assembled problem, X's own snapshot)"""
    pev, kids = flow.top_setups(r.rec)[0]
    off = 0
    for kd in kids:
        if kd.args['name'] == name:
            return off, kd.snap
        off += len(kd.snap.c)
    return None, None


def fine_plus_equalities(spec, X, classes, rate_based, ck, averaged_prices):
    """Build the fine EAO problem of the same portfolio (X without the option, prices pre-averaged), append the equalities, solve with HiGHS."""
    sp2 = copy.deepcopy(spec)
    for a in sp2['assets']:
        if a['name'] == 'X':
            for k in ('freq', 'periodicity', 'periodicity_duration'):
                a.pop(k, None)
    sp2['prices'] = dict(sp2['prices'], **averaged_prices)
    r = flow.run_portfolio(sp2, do_optimize=False)
    if not r.ok:
        return None, 'fine problem: ' + flow.describe_error(r)
    off, xs = subject_vars(r, 'X')
    op = r.op
    n = len(op.c)
    m = xs.mapping
    byvar = {}
    first = m[~m.index.duplicated(keep='first')] if (m is not None and len(m)) else None
    for idx, vn, t in ([] if first is None else zip(first.index, first['var_name'], first['time_step'])):
        byvar.setdefault(str(vn), {})[int(t)] = off + int(idx)
    rows = []
    for vn, tv in byvar.items():
        if vn not in ('disp', 'disp_in', 'disp_out'):
            continue
        for G in classes:
            G = [t for t in G if t in tv]
            for t, t2 in zip(G[:-1], G[1:]):
                row = sp.lil_matrix((1, n))
                if rate_based:
                    row[0, tv[t]] = 1. / ck.dt[t]; row[0, tv[t2]] = -1. / ck.dt[t2]
                else:
                    row[0, tv[t]] = 1.; row[0, tv[t2]] = -1.
                rows.append(row)
    A, lo, hi = solve.rows(op)
    if rows:
        E = sp.vstack(rows).tocsr()
        A = sp.vstack([A, E]).tocsr(); lo = np.append(lo, np.zeros(E.shape[0])); hi = np.append(hi, np.zeros(E.shape[0]))
    sol = solve.highs(op.c, op.l, op.u, A, lo, hi)
    return sol, len(rows)


def run_case(rng, tier, case):
    spec, mode, cls = gen_case(rng)
    sp = gen.strip_private(spec)
    X = [a for a in sp['assets'] if a['name'] == 'X'][0]
    ck = Clock(sp['grid'])
    if sp['grid'].get('tz') and (X.get('start') or X.get('end')) and rng.random() < 0.3:
        # the subject's window given zone-aware (the same instants in UTC or quoted in another zone than the grid's)
        X['_date_form'] = gen.pick(rng, ['aware_utc', 'aware_other'])
        case.feature('window_' + X['_date_form'])
    twovar = (cls in ('SimpleContract', 'Contract', 'MultiCommodityContract') and X.get('extra_costs') and X['min_cap'] < 0 < X['max_cap']) or \
             (cls == 'Storage' and (X.get('eff_in', 1) != 1 or X.get('cost_in') or X.get('cost_out') or len(X['nodes']) == 2))
    case.feature('mode:' + mode, 'class:' + cls, 'two_variables' if twovar else 'one_variable', 'freq:' + sp['grid']['freq'])
    if mode == 'coarse':
        case.feature('coarse:' + X['freq'], 'window:' + ('yes' if (X.get('start') or X.get('end')) else 'no'), 'unequal_fine_steps' if np.ptp(ck.dt) > 1e-12 else 'equal_fine_steps')
    case.key = env.spec_key(sp); case.sample = gen.abbreviate(spec); case.spec = spec
    r = flow.run_portfolio(sp)
    who = {'cls': cls, 'mode': mode, 'two_variables': bool(twovar), 'freq': X.get('freq'), 'periodicity': X.get('periodicity')}
    if not r.ok:
        # the option must work for every class that accepts it; domain assertions of EAO (AssertionError with message) are rejections
        if isinstance(r.error, AssertionError) or (isinstance(r.error, ValueError) and 'ill-posed' in str(r.error)):
            case.reject(flow.describe_error(r)); return
        case.check('option.setup_works', False, **who, error=flow.describe_error(r)); return
    case.check('option.setup_works', True, **who)
    # (the set-up works on its own copies: the price data handed in are the caller's)
    case.check('option.price_data_untouched', not r.prices_changed, **who, changed_keys=r.prices_changed[:4])
    if not r.solved:
        case.inconc('not solved: ' + str(r.res)); return
    single = len(r.built.portfolio.nodes) == 1
    disp = np.zeros(ck.T)
    col = 'X' if single else 'X (%s)' % X['nodes'][0]
    disp = r.out['dispatch'][col].values.astype(float)
    flowed = bool(np.abs(disp).max() > 1e-6)
    tol = 1e-6 * (1 + np.abs(disp).max())
    if mode == 'coarse':
        groups = coarse_groups(sp, X, ck)
        worst = 0.; bad = None
        for G in groups:
            rate = disp[G] / ck.dt[G]
            if np.ptp(rate) > worst:
                worst = float(np.ptp(rate)); bad = {'steps': G[:6], 'rates': rate[:6].tolist()}
        covered = sorted(t for G in groups for t in G)
        case.check('coarse.constant_rate', worst <= tol * max(1., 1. / ck.dt.min()), nonvacuous=flowed and any(len(G) > 1 for G in groups), **who, bad=bad)
        W = ck.window(X.get('start'), X.get('end'))
        nz = set(np.where(np.abs(disp) > 1e-7)[0].tolist())
        case.check('coarse.dispatch_only_in_window', nz <= set(W), nonvacuous=flowed, **who, outside=sorted(nz - set(W))[:5])
        # (ii) fine + equalities, prices pre-averaged over the coarse intervals (plain mean, as documented)
        avg = {}
        for k in ('price', 'costs_time_series'):
            if isinstance(X.get(k), str):
                p = np.asarray(sp['prices'][X[k]], float).copy()
                for G in groups:
                    p[G] = p[G].mean()
                avg[X[k]] = p.tolist()
        shared = [a['name'] for a in sp['assets'] if a['name'] != 'X' and any(a.get(k) in avg for k in ('price', 'costs_time_series'))]
        if shared:
            case.inconc('price key shared with another asset'); return
        sol, neq = fine_plus_equalities(sp, X, groups, True, ck, avg)
        if sol is None:
            case.inconc(neq); return
        if sol['status'] != 'optimal':
            case.check('coarse.value_equals_fine_plus_equalities', False, **who, eao=float(r.res.value), reference=sol['status']); return
        v = float(r.res.value)
        case.check('coarse.value_equals_fine_plus_equalities', abs(v - sol['value']) <= solve.TOL_VAL * (1 + abs(v)), nonvacuous=flowed, **who, eao=v, reference=sol['value'],
                   n_equalities=neq, window=[X.get('start'), X.get('end')])
    else:
        classes = period_classes(sp, X, ck)
        if X.get('start') or X.get('end'):
            Wx = set(ck.window(X.get('start'), X.get('end')))          # (the asset repeats its dispatch over the steps in which it is active)
            classes = {kq: [t for t in v if t in Wx] for kq, v in classes.items()}
            classes = {kq: v for kq, v in classes.items() if v}
        worst = 0.; bad = None
        for k, G in classes.items():
            if len(G) > 1 and np.ptp(disp[G]) > worst:
                worst = float(np.ptp(disp[G])); bad = {'class': list(k), 'steps': G[:6], 'dispatch': disp[G][:6].tolist()}
        case.check('periodic.repeats', worst <= tol, nonvacuous=flowed and any(len(G) > 1 for G in classes.values()), **who, bad=bad, duration=X.get('periodicity_duration'))
        sol, neq = fine_plus_equalities(sp, X, list(classes.values()), False, ck, {})
        if sol is None:
            case.inconc(neq); return
        if sol['status'] != 'optimal':
            case.check('periodic.value_equals_fine_plus_equalities', False, **who, eao=float(r.res.value), reference=sol['status']); return
        v = float(r.res.value)
        case.check('periodic.value_equals_fine_plus_equalities', abs(v - sol['value']) <= solve.TOL_VAL * (1 + abs(v)), nonvacuous=flowed, **who, eao=v, reference=sol['value'],
                   n_equalities=neq, duration=X.get('periodicity_duration'))
    case.nontrivial = flowed


def _is_f3c(v, rec):
    # Plant / CHPAsset with periodicity: the periodic merge runs inside the Contract set-up, before CHP appends its variables and rows
    return v.get('clause') == 'option.setup_works' and v.get('cls') in ('Plant', 'CHPAsset') and v.get('mode') == 'periodic'


def _is_f46(v, rec):
    # own coarser frequency in calendar days on a zone-aware grid: the coarse steps are pd.date_range(window start, freq='d') in the grid's zone; if the
    # window starts at a wall-clock time that is ambiguous (02:00-03:00 on the autumn switch day) or missing (spring) on a LATER day of the window,
    # pandas raises Ambiguous/NonExistentTimeError inside the set-up
    return (v.get('clause') == 'option.setup_works' and v.get('mode') == 'coarse' and str(v.get('freq', '')).endswith('d')
            and ('AmbiguousTimeError' in str(v.get('error', '')) or 'NonExistentTimeError' in str(v.get('error', ''))))


CLASSIFIERS = {'c13_plant_periodicity': _is_f3c, 'c13_coarse_daily_step_on_ambiguous_wall_clock_time': _is_f46}
