"""eaomon - runtime monitors for EnergyAssetOptimization/EAO (see /verif/DESIGN.md)."""
