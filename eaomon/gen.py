"""Seeded generators of specs: grids, prices, assets, portfolios, names (DESIGN 1.1).
All randomness comes from the numpy Generator passed in; all date arithmetic uses pd.Timestamp."""
import copy
import numpy as np
import pandas as pd
from pandas.tseries.frequencies import to_offset
from .spec import local_ok

TZS = [None, 'CET', 'Europe/Berlin', 'America/New_York', 'Asia/Kolkata']
# starts around DST switches (EU 2021-03-28 / 10-31, US 2021-03-14 / 11-07), month/year ends, leap day
ANCHORS = ['2021-01-10', '2021-03-27', '2021-03-28', '2021-10-30', '2021-10-31', '2021-03-13', '2021-03-14',
           '2021-11-06', '2021-11-07', '2020-02-28', '2020-12-30', '2021-06-29', '2022-01-30']
FREQS = ['15min', '30min', 'h', '2h', '4h', 'd']
UNIT_F = {'h': 1., 'd': 24., 'min': 1. / 60.}      # rate factor relative to 'per hour'


def pick(rng, seq, p=None):
    return seq[int(rng.choice(len(seq), p=p))]


def fdelta(freq):
    return pd.Timedelta(to_offset(freq))


def gen_grid(rng, freqs=None, tzs=None, units=None, steps=(6, 36), hour_offsets=(0, 0, 0, 6, 12, 18), anchors=None, dst=False):
    """-> grid dict {start,end,freq,unit,tz} with start/end as naive local ISO strings."""
    freqs = freqs or FREQS
    tzs = TZS if tzs is None else tzs
    units = units or ['h', 'h', 'd', 'min']
    if dst:
        # horizon that contains a daylight-saving switch: zone and start day matched, start at local midnight of the switch day or the day before
        eu = rng.random() < 0.6
        tzs = ['CET', 'Europe/Berlin'] if eu else ['America/New_York']
        anchors = (['2021-03-28', '2021-10-31', '2021-03-27', '2021-10-30'] if eu else ['2021-03-14', '2021-11-07', '2021-03-13', '2021-11-06'])
        hour_offsets = (0,)
        steps = (max(steps[0], 8), max(steps[1], 30))
        freqs = ['d', 'd', 'd', 'h', '2h']      # only calendar-day steps differ in real length; hourly grids matter for coarse (daily) assets
    for _ in range(50):
        freq = pick(rng, freqs)
        tz = pick(rng, tzs)
        unit = pick(rng, units)
        T = int(rng.integers(steps[0], steps[1] + 1))
        s = pd.Timestamp(pick(rng, anchors or ANCHORS)) + pd.Timedelta(hours=int(pick(rng, list(hour_offsets))))
        if freq.endswith('d'):
            T = min(T, 14)
        if dst and freq == '2h':
            T = max(T, 16)
        if dst and freq in ('h', '30min') and s.day in (27, 30, 13, 6):
            T = max(T, 30 if freq == 'h' else 58)
        if not local_ok(str(s), tz):
            continue
        try:
            rngp = pd.date_range(start=s.tz_localize(tz) if tz else s, periods=T + 1, freq=freq)
        except Exception:
            continue
        e = rngp[-1]
        e_naive = e.tz_localize(None) if e.tzinfo is not None else e
        if not local_ok(str(e_naive), tz):
            continue
        # the naive local end must map back to the same instant (ambiguous hours are excluded by local_ok)
        if tz is not None and pd.Timestamp(e_naive).tz_localize(tz) != e:
            continue
        return {'start': str(s), 'end': str(e_naive), 'freq': freq, 'unit': unit, 'tz': tz}
    raise RuntimeError('no grid found')


def grid_points(g):
    tz = g.get('tz')
    s = pd.Timestamp(g['start']); e = pd.Timestamp(g['end'])
    if tz:
        s = s.tz_localize(tz); e = e.tz_localize(tz)
    return pd.date_range(start=s, end=e, freq=g['freq'])[:-1]


def equal_steps(g):
    """True if all steps of the grid have the same real length (no DST switch inside the horizon)."""
    pts = pd.date_range(start=pd.Timestamp(g['start'], tz=g.get('tz')), end=pd.Timestamp(g['end'], tz=g.get('tz')), freq=g['freq'])
    v = np.array([p.value for p in pts])
    return len(v) < 3 or bool(np.ptp(np.diff(v)) == 0)


def naive_str(p):
    p = pd.Timestamp(p)
    return str(p.tz_localize(None) if p.tzinfo is not None else p)


OFFGRID = 0.0      # probability that a generated window bound is moved off the grid raster (drivers whose oracles read windows point-wise set it)


def gen_window(rng, g, kinds=None, offgrid=None):
    """A [start,end) window relative to the horizon. -> (start_str|None, end_str|None, placement)
    offgrid: probability of moving each bound by a fraction of a step, so that it falls strictly between two grid points."""
    offgrid = OFFGRID if offgrid is None else offgrid
    pts = grid_points(g)
    T = len(pts)
    d = fdelta(g['freq']) if not g['freq'].endswith('d') else pd.Timedelta(days=int(to_offset(g['freq']).n))
    kinds = kinds or ['none', 'none', 'inside', 'inside', 'straddle_start', 'straddle_end', 'before', 'after', 'start_only', 'end_only', 'empty']
    tz = g.get('tz')
    for _ in range(30):
        k = pick(rng, kinds)
        p0 = pd.Timestamp(g['start']); pN = pd.Timestamp(g['end'])
        loc = [pd.Timestamp(naive_str(p)) for p in pts]
        if k == 'none':
            return None, None, k
        if k == 'inside' and T >= 3:
            i = int(rng.integers(0, T - 1)); j = int(rng.integers(i + 1, T + 1))
            s = loc[i]; e = loc[j] if j < T else pN
        elif k == 'straddle_start':
            j = int(rng.integers(1, T + 1)); s = p0 - d * int(rng.integers(1, 5)); e = loc[j] if j < T else pN
        elif k == 'straddle_end':
            i = int(rng.integers(0, T)); s = loc[i]; e = pN + d * int(rng.integers(1, 5))
        elif k == 'before':
            e = p0 - d * int(rng.integers(0, 3)); s = e - d * int(rng.integers(1, 6))
        elif k == 'after':
            s = pN + d * int(rng.integers(0, 3)); e = s + d * int(rng.integers(1, 6))
        elif k == 'start_only':
            i = int(rng.integers(0, T)); s = loc[i]; e = None
        elif k == 'end_only':
            j = int(rng.integers(1, T + 1)); s = None; e = loc[j] if j < T else pN
        elif k == 'empty':
            i = int(rng.integers(0, T)); s = loc[i]; e = loc[i]
        else:
            continue
        if offgrid > 0 and not g['freq'].endswith('d'):
            # (sub-daily grids only: fractions of a calendar day are not well defined across clock changes)
            if k in ('empty', 'before', 'after'):
                # the placement is kept: both bounds move together, away from the horizon
                if rng.random() < offgrid:
                    sh = d * float(pick(rng, [0.5, 0.25, 0.75])) * (-1 if k == 'before' else 1)
                    s = s + sh; e = e + sh
            else:
                if s is not None and rng.random() < offgrid:
                    s = s + d * float(pick(rng, [0.5, 0.25, 0.75, -0.5]))
                if e is not None and rng.random() < offgrid:
                    e = e + d * float(pick(rng, [0.5, 0.25, -0.25, -0.5]))
                if s is not None and e is not None and e < s:
                    continue
        if (s is not None and not local_ok(str(s), tz)) or (e is not None and not local_ok(str(e), tz)):
            continue
        return (None if s is None else str(s)), (None if e is None else str(e)), k
    return None, None, 'none'


def gen_prices(rng, T, keys, kind=None, cap_levels=None):
    out = {}
    for k in keys:
        if cap_levels and k in cap_levels:
            lo_, hi_ = cap_levels[k]
            out[k] = [float(x) for x in np.round(rng.uniform(lo_ + 0.25 * (hi_ - lo_), hi_, T), 3)]       # an availability series between min and max capacity
            continue
        kd = kind or pick(rng, ['normal', 'normal', 'sin', 'neg', 'big', 'steps'])
        if kd == 'normal':
            v = rng.normal(20, 8, T)
        elif kd == 'sin':
            v = 20 + 10 * np.sin(np.arange(T) * rng.uniform(0.2, 1.5) + rng.uniform(0, 3)) + rng.normal(0, 1, T)
        elif kd == 'neg':
            v = rng.normal(0, 15, T)
        elif kd == 'big':
            v = rng.normal(500, 300, T)
        elif kd == 'tail_neg':                      # the horizon ends with negative prices: an incentive to end full / above the end level
            v = rng.normal(20, 8, T); k_ = max(1, T // 4); v[-k_:] = -np.abs(rng.normal(15, 5, k_)) - 1.
        elif kd == 'head_neg':
            v = rng.normal(20, 8, T); k_ = max(1, T // 4); v[:k_] = -np.abs(rng.normal(15, 5, k_)) - 1.
        else:
            v = np.repeat(rng.normal(20, 10, (T + 3) // 4), 4)[:T] + rng.normal(0, .01, T)
        out[k] = [float(x) for x in np.round(v, 3)]
    return out


# ------------------------------------------------------------------------------------------------
# names
# ------------------------------------------------------------------------------------------------
HOSTILE_NAMES = ['1', '11', '111', '2', '12', '21', 'a', 'ab', 'abc', 'b', 'bc', 'x (y)', 'x', 'y', 'a__b', 'a_internal_b',
                 ' (', 'n (n)', 'A', 'a ', 'Z_1', '1_Z', '0', '00', 'NaN ', 'none', 'disp', 'index', 'asset', '10', '01', 'Z_11']


def hostile_names(rng, k):
    idx = rng.permutation(len(HOSTILE_NAMES))[:k]
    return [HOSTILE_NAMES[int(i)] for i in idx]


def rename_hostile(rng, spec):
    """injective renaming of assets and nodes with the hostile name pool."""
    import copy
    spec = copy.deepcopy(spec)
    names = []
    def coll(a):
        names.append(a['name'])
        if 'base' in a: coll(a['base'])
        for x in a.get('assets', []): coll(x)
    for a in spec['assets']: coll(a)
    nodes = sorted({n for a in spec['assets'] for n in spec_nodes(a)})
    # assets and nodes are separate name spaces: each renaming is injective on its own, an asset may carry the name of a node, and concatenations of
    # asset and node names may coincide ('1'+'11' = '11'+'1')
    pool_a = hostile_names(rng, len(names)); pool_n = hostile_names(rng, len(nodes))
    if len(pool_a) < len(names) or len(pool_n) < len(nodes):
        return spec, {}
    amap = dict(zip(names, pool_a))
    nmap = dict(zip(nodes, pool_n))
    tops = [a for a in spec['assets'] if a.get('nodes') and a['type'] not in ('StructuredAsset', 'LinkedAsset', 'ScaledAsset')]
    if len(nodes) >= 2 and len(tops) >= 2 and rng.random() < 0.25:
        # two (asset, node) pairs whose concatenated names coincide: asset p in node pq and asset pq in node p
        for _ in range(10):
            a1, a2 = [tops[int(i)] for i in rng.permutation(len(tops))[:2]]
            n1, n2 = a1['nodes'][0], a2['nodes'][0]
            if n1 != n2:
                pa, pb = pick(rng, [('1', '11'), ('a', 'ab'), ('0', '00'), ('x', 'x (y)')])
                def put(mp, key, val):
                    for k_, v_ in list(mp.items()):
                        if v_ == val and k_ != key:
                            mp[k_] = mp[key]          # swap: stays injective
                    mp[key] = val
                put(amap, a1['name'], pa); put(amap, a2['name'], pb); put(nmap, n1, pb); put(nmap, n2, pa)
                break
    if len(nodes) >= 2 and rng.random() < 0.3:
        # two nodes whose names differ by trailing digits only: node name + step number may coincide ('1' + '17' = '11' + '7')
        n1, n2 = [nodes[int(i)] for i in rng.permutation(len(nodes))[:2]]
        pa, pb = pick(rng, [('1', '11'), ('1', '12'), ('2', '21'), ('0', '00'), ('1', '10'), ('Z_1', 'Z_11')])
        def put_n(key, val):
            for k_, v_ in list(nmap.items()):
                if v_ == val and k_ != key:
                    nmap[k_] = nmap[key]
            nmap[key] = val
        put_n(n1, pa); put_n(n2, pb)
    two = [a for a in spec['assets'] if a['type'] == 'Storage' and len(a.get('nodes') or []) == 2 and a['nodes'][0] != a['nodes'][1]]
    if two and len(nodes) >= 3 and rng.random() < 0.5:
        # a two-node asset whose second node has the longer name, the beginning of which is the name of a third node
        a_ = two[int(rng.integers(len(two)))]
        third = pick(rng, [n for n in nodes if n not in a_['nodes']])
        p1, p2, p3 = pick(rng, [('2', '12', '1'), ('b', 'ab', 'a'), ('x', 'abc', 'a'), ('0', '11', '1'), ('y', 'x (y)', 'x')])
        for key, val in ((a_['nodes'][0], p1), (a_['nodes'][1], p2), (third, p3)):
            for k_, v_ in list(nmap.items()):
                if v_ == val and k_ != key:
                    nmap[k_] = nmap[key]
            nmap[key] = val
    def ren(a):
        a['name'] = amap[a['name']]
        if 'nodes' in a and a['nodes'] is not None:
            a['nodes'] = [nmap[n] for n in a['nodes']]
        for key in ('asset1_variable', 'asset2_variable'):     # a LinkedAsset refers to wrapped assets / nodes by name
            if key in a:
                v = list(a[key])
                v[0] = amap.get(v[0], v[0])
                if v[2] is not None:
                    v[2] = nmap.get(v[2], v[2])
                a[key] = v
        if 'base' in a: ren(a['base'])
        for x in a.get('assets', []): ren(x)
    for a in spec['assets']: ren(a)
    return spec, {'assets': amap, 'nodes': nmap}


def spec_nodes(a):
    out = list(a.get('nodes') or [])
    if 'base' in a: out += spec_nodes(a['base'])
    for x in a.get('assets', []): out += spec_nodes(x)
    return out



# ------------------------------------------------------------------------------------------------
# assets
# ------------------------------------------------------------------------------------------------
def r2(x):
    return float(np.round(x, 3))


def gen_market(rng, name, node, f, price_key, spread=None, cap=50., wacc=None):
    sp = pick(rng, [0., 0., 0.3, 1.]) if spread is None else spread
    return {'type': 'SimpleContract', 'name': name, 'nodes': [node], 'price': price_key, 'min_cap': -cap * f, 'max_cap': cap * f,
            'extra_costs': sp, 'wacc': pick(rng, [0., 0., 0.1]) if wacc is None else wacc}


def gen_take(rng, g, lo, hi, f):
    """one take period; value scaled to be binding sometimes."""
    pts = grid_points(g); T = len(pts)
    d = fdelta(g['freq']) if not g['freq'].endswith('d') else pd.Timedelta(days=int(to_offset(g['freq']).n))
    tz = g.get('tz')
    for _ in range(20):
        i = int(rng.integers(-3, T)); n = int(rng.integers(2, T + 4))          # (also a period that begins with the very last step)
        s = pd.Timestamp(g['start']) + d * i
        e = s + d * n
        if not (local_ok(str(s), tz) and local_ok(str(e), tz)):
            continue
        s_ = s.tz_localize(tz) if tz else s; e_ = e.tz_localize(tz) if tz else e
        dur_units = (e_ - s_) / pd.Timedelta(1, g['unit'])
        if dur_units <= 0:
            continue
        oblig = rng.random() < 0.3       # an obligation (take-or-pay: at least V bought / at least V sold) instead of a cap
        if hi > 0:
            if oblig and lo >= 0:
                return 'min_take', {'start': [str(s)], 'end': [str(e)], 'values': [r2(hi * dur_units * rng.uniform(0.1, 0.5))]}
            return 'max_take', {'start': [str(s)], 'end': [str(e)], 'values': [r2(hi * dur_units * rng.uniform(0.15, 0.7))]}
        if lo < 0:
            if oblig:
                return 'max_take', {'start': [str(s)], 'end': [str(e)], 'values': [r2(lo * dur_units * rng.uniform(0.1, 0.5))]}
            return 'min_take', {'start': [str(s)], 'end': [str(e)], 'values': [r2(lo * dur_units * rng.uniform(0.15, 0.7))]}
        return None, None
    return None, None


def gen_contract(rng, g, name, node, f, price_key, window=True, take=True, simple=None, spread=None, dict_caps=True, cap_key=None):
    lo, hi = sorted([pick(rng, [-3., -1., 0., 0., 2., 4.]), pick(rng, [-3., -1., 0., 0., 2., 4.])])
    a = {'type': 'Contract', 'name': name, 'nodes': [node], 'price': price_key, 'min_cap': r2(lo * f), 'max_cap': r2(hi * f),
         'extra_costs': pick(rng, [0., 0., 0.3, 1.]) if spread is None else spread, 'wacc': pick(rng, [0., 0., 0.2])}
    if simple if simple is not None else rng.random() < 0.3:
        a['type'] = 'SimpleContract'
    if window:
        s, e, k = gen_window(rng, g)
        a['start'], a['end'] = s, e
        a['_window'] = k
    if a['type'] == 'Contract' and take and rng.random() < 0.6:
        key, tk = gen_take(rng, g, lo * f, hi * f, f)
        if key:
            a[key] = tk
            r_ = rng.random()
            if r_ < 0.2 and lo >= 0 and hi > 0:
                # both restrictions for the same period: at least a part of / at most the stated volume
                other = 'min_take' if key == 'max_take' else 'max_take'
                v = tk['values'][0]
                a[other] = {'start': list(tk['start']), 'end': list(tk['end']), 'values': [r2(v * 0.4) if other == 'min_take' else r2(v * 1.6)]}
            elif r_ < 0.4:
                a['_take_scalar'] = True          # a single period handed over as plain values instead of one-element lists
    if cap_key is not None and hi > 0:
        # capacity given as a key of the price data (e.g. an availability series): bounds then depend on the data set
        a['max_cap'] = cap_key
        a['_cap_level'] = [r2(max(lo, 0.) * f), r2(hi * f)]
        return a
    if dict_caps and rng.random() < 0.35 and hi > 0:
        # time-varying capacity as interval dictionary covering the horizon generously
        pts = grid_points(g)
        mid = naive_str(pts[len(pts) // 2])
        far0 = str(pd.Timestamp(g['start']) - pd.Timedelta(days=40)); far1 = str(pd.Timestamp(g['end']) + pd.Timedelta(days=40))
        if local_ok(mid, g.get('tz')):
            second = max(lo * f, hi * f * 0.5) if lo > 0 else pick(rng, [hi * f * 0.5, 0., 0.])      # (an availability profile: no capacity at all in part of the horizon)
            a['max_cap'] = {'start': [far0, mid], 'end': [mid, far1], 'values': [r2(hi * f), r2(second)]}
    return a


def gen_transport(rng, g, name, n1, n2, f, cost_key=None, window=True, extended=None, take=True):
    a = {'type': 'Transport', 'name': name, 'nodes': [n1, n2], 'min_cap': 0., 'max_cap': r2(pick(rng, [1., 3.]) * f),
         'efficiency': pick(rng, [1., 1., 0.9, 0.7]), 'costs_const': pick(rng, [0., 0., 0.2]), 'wacc': pick(rng, [0., 0., 0.2])}
    if cost_key is not None and rng.random() < 0.3:
        a['costs_time_series'] = cost_key
    if window:
        s, e, k = gen_window(rng, g)
        a['start'], a['end'] = s, e
        a['_window'] = k
    reverse = False
    if extended is not True and rng.random() < 0.15:
        # a link used against its nominal direction (capacities <= 0; costs act on the absolute flow) or - without costs - in both directions
        if rng.random() < 0.7:
            a['min_cap'] = -a['max_cap']; a['max_cap'] = pick(rng, [0., 0., r2(a['min_cap'] / 2.)]); a['efficiency'] = 1.; reverse = True
            if rng.random() < 0.5:
                a['costs_const'] = pick(rng, [0.2, 2.]); a['wacc'] = pick(rng, [0.2, 0.5, 0.])          # discounted costs on the absolute flow
        elif not a.get('costs_time_series'):
            a['min_cap'] = -a['max_cap']; a['costs_const'] = 0.; a['efficiency'] = 1.; reverse = True
    if not reverse and (extended if extended is not None else rng.random() < 0.35):
        a['type'] = 'ExtendedTransport'
        if take and rng.random() < 0.7:
            key, tk = gen_take(rng, g, 0., a['max_cap'], f)
            if key:
                a[key] = tk
    return a


def gen_storage(rng, g, name, nodes, f, price_key=None, window=True, mip=False, blocks=False, inflow=True):
    size = pick(rng, [0., 5., 20., 20.])
    sl = pick(rng, [0., size / 2.])
    el = pick(rng, [sl, sl, 0., size / 4.])
    a = {'type': 'Storage', 'name': name, 'nodes': list(nodes), 'size': size, 'cap_in': r2(pick(rng, [1., 2.]) * f),
         'cap_out': r2(pick(rng, [1., 2.]) * f), 'start_level': sl, 'end_level': el,
         'eff_in': pick(rng, [1., 1., 1., 0.9, 0.9, 0.8, 0.8, 1.25]), 'inflow': r2(pick(rng, [0., 0., 0.05]) * f) if inflow else 0.,
         'cost_in': pick(rng, [0., 0., 0.1]), 'cost_out': pick(rng, [0., 0., 0.2]),
         'cost_store': r2(pick(rng, [0., 0., 0.01]) * f), 'wacc': pick(rng, [0., 0., 0.3])}
    if price_key is not None and rng.random() < 0.3:
        a['price'] = price_key
    if window:
        s, e, k = gen_window(rng, g, kinds=['none', 'none', 'none', 'inside', 'straddle_start', 'straddle_end', 'before', 'after'])
        a['start'], a['end'] = s, e
        a['_window'] = k
    if mip:
        if rng.random() < 0.6:
            a['no_simult_in_out'] = True
        else:
            a['max_store_duration'] = r2(pick(rng, [2., 3., 5.]) / f * pick(rng, [1., 1., 2.]))
    return a


def gen_multicommodity(rng, g, name, nodes, f, price_key):
    lo, hi = sorted([pick(rng, [-2., 0., 0.]), pick(rng, [0., 2., 4.])])
    fac = [1.] + [pick(rng, [0.5, 1., 2., -1., -0.4]) for _ in nodes[1:]]
    a = {'type': 'MultiCommodityContract', 'name': name, 'nodes': list(nodes), 'price': price_key, 'min_cap': r2(lo * f), 'max_cap': r2(hi * f),
         'extra_costs': pick(rng, [0., 0., 0.3]), 'factors_commodities': fac, 'wacc': pick(rng, [0., 0.1])}
    if len(nodes) >= 2 and rng.random() < 0.15:
        # the same node listed twice (a unit taking auxiliary power from the node it feeds): two mapping rows of one variable in one (node, step)
        a['nodes'].append(nodes[0]); a['factors_commodities'].append(pick(rng, [-0.06, -0.25]))
    s, e, k = gen_window(rng, g)
    a['start'], a['end'], a['_window'] = s, e, k
    if rng.random() < 0.4:
        key, tk = gen_take(rng, g, lo * f, hi * f, f)
        if key:
            a[key] = tk
    return a


def gen_orderbook(rng, g, name, node, n_orders=None, full_exec=False, price_level=20.):
    pts = grid_points(g); T = len(pts)
    d = fdelta(g['freq']) if not g['freq'].endswith('d') else pd.Timedelta(days=int(to_offset(g['freq']).n))
    n = int(rng.integers(1, 13)) if n_orders is None else n_orders
    o = {'start': [], 'end': [], 'capa': [], 'price': []}
    tz = g.get('tz')
    tries = 0
    while len(o['start']) < n and tries < 200:
        tries += 1
        kind = pick(rng, ['in', 'in', 'in', 'straddle', 'before', 'after', 'empty'])
        if kind == 'in':
            i = int(rng.integers(0, T)); j = int(rng.integers(i + 1, T + 1))
        elif kind == 'straddle':
            i = int(rng.integers(-4, T)); j = i + int(rng.integers(1, T + 5))
        elif kind == 'before':
            j = int(rng.integers(-6, 1)); i = j - int(rng.integers(1, 5))
        elif kind == 'after':
            i = int(rng.integers(T, T + 6)); j = i + int(rng.integers(1, 5))
        else:
            i = int(rng.integers(0, T)); j = i
        s = pd.Timestamp(g['start']) + d * i
        e = pd.Timestamp(g['start']) + d * j
        if 0 <= i < T:
            s = pd.Timestamp(naive_str(pts[i]))
        if 0 <= j < T:
            e = pd.Timestamp(naive_str(pts[j]))
        elif j == T:
            e = pd.Timestamp(g['end'])
        if not (local_ok(str(s), tz) and local_ok(str(e), tz)):
            continue
        o['start'].append(str(s)); o['end'].append(str(e))
        o['capa'].append(r2(pick(rng, [-3., -1., 0., 1., 2., 5.])))
        o['price'].append(r2(price_level + rng.normal(0, 6)))
    if rng.random() < 0.5 and len(o['start']) > 1:
        # orders listed in the order of their delivery start (as an exchange order book would be): the last orders are the latest ones
        idx = sorted(range(len(o['start'])), key=lambda i: o['start'][i])
        o = {k: [v[i] for i in idx] for k, v in o.items()}
    out = {'type': 'OrderBook', 'name': name, 'nodes': [node], 'orders': o, 'full_exec': bool(full_exec), 'wacc': pick(rng, [0., 0., 0.1])}
    r_ = rng.random()
    if r_ < 0.25:
        # order data as integers (an order book read from a file of whole MW and whole EUR)
        o['capa'] = [int(v) for v in o['capa']]; o['price'] = [int(round(v)) for v in o['price']]
    if tz is not None and rng.random() < 0.3:
        out['_orders_tz'] = pick(rng, ['UTC', 'Asia/Kolkata', 'America/New_York', 'Europe/London'])
    return out


def gen_plant(rng, g, name, nodes, f, price_key, chp=False, simple=False, fuel=True, ramp_profiles=True, dict_costs=False):
    """Plant / CHPAsset spec with MIP features. nodes: [power, (heat), (fuel)]"""
    hi = pick(rng, [4., 6., 10.]); lo = pick(rng, [1., 2., 0.])
    a = {'type': 'CHPAsset' if chp else 'Plant', 'name': name, 'nodes': list(nodes), 'price': price_key,
         'min_cap': r2(lo * f), 'max_cap': r2(hi * f), 'extra_costs': pick(rng, [0., 1.]), 'wacc': 0.}
    lp_ramp = (not simple) and rng.random() < 0.12
    if lp_ramp:
        # plant without any on/off variable (min_cap 0, no start features): only the ramp rows couple the steps, the first one to last_dispatch
        st = float(pd.Timedelta(to_offset(g['freq'])) / pd.Timedelta(1, g['unit']))
        a['min_cap'] = 0.
        a['ramp'] = r2(pick(rng, [1., 2., 3., 0.]) * f)          # (0: the output cannot change at all)
        a['time_already_running'] = r2(st * int(rng.integers(1, 4)))
        a['last_dispatch'] = r2(pick(rng, [1., hi, hi / 2., 0.]) * f)
        simple = True
    if not simple:
        st = float(pd.Timedelta(to_offset(g['freq'])) / pd.Timedelta(1, g['unit']))     # step length in main time units
        if rng.random() < 0.5:
            a['min_runtime'] = r2(st * int(rng.integers(2, 4)))
        if rng.random() < 0.5:
            a['min_downtime'] = r2(st * int(rng.integers(2, 4)))
        r = rng.random()
        if r < 0.3:
            a['time_already_running'] = r2(st * int(rng.integers(1, 4)))
        elif r < 0.6 or a.get('min_downtime', 0) > st:
            a['time_already_off'] = r2(st * int(rng.integers(1, 4)))
        if rng.random() < 0.5:
            a['start_costs'] = pick(rng, [1., 5., 20.])
        if rng.random() < 0.4:
            a['running_costs'] = r2(pick(rng, [0.5, 2.]) * f)
        if rng.random() < 0.5:
            a['ramp'] = r2(pick(rng, [1., 2., 3., 1., 2., 3., 0.]) * f)
            if a.get('time_already_running') and rng.random() < 0.7:
                a['last_dispatch'] = r2(pick(rng, [lo if lo > 0 else 1., hi, (lo + hi) / 2.]) * f)
        if ramp_profiles and rng.random() < (0.35 if ramp_profiles is True else float(ramp_profiles)):      # (True: the default share; a number: that share)
            k = int(rng.integers(1, 3))
            lows = sorted(r2(rng.uniform(0.1, 0.6) * hi * f) for _ in range(k))
            a['start_ramp_lower_bounds'] = lows
            a['start_ramp_upper_bounds'] = [r2(v * pick(rng, [1., 1.2])) for v in lows]
            if rng.random() < 0.5:
                kd = int(rng.integers(1, k + 1))
                a['shutdown_ramp_lower_bounds'] = lows[:kd]
                a['shutdown_ramp_upper_bounds'] = [r2(v * 1.1) for v in lows[:kd]]
            if chp and rng.random() < 0.5:
                # bounds on the HEAT dispatch during the start (and shutdown) ramp
                a['start_ramp_lower_bounds_heat'] = [0.] * len(lows)
                a['start_ramp_upper_bounds_heat'] = [r2(v * pick(rng, [0.25, 0.5])) for v in a['start_ramp_upper_bounds']]
                if a.get('shutdown_ramp_lower_bounds') and rng.random() < 0.7:
                    a['shutdown_ramp_lower_bounds_heat'] = [0.] * len(a['shutdown_ramp_lower_bounds'])
                    a['shutdown_ramp_upper_bounds_heat'] = [r2(v * 0.5) for v in a['shutdown_ramp_upper_bounds']]
            # one profile value per grid step unless the main unit is finer than the step (then EAO averages the profile); a profile given in a unit
            # coarser than the step would be longer than the short horizons used here
            if pd.Timedelta(to_offset(g['unit'])) > pd.Timedelta(to_offset(g['freq'])) or rng.random() < 0.5:
                a['ramp_freq'] = g['freq']
            a.pop('time_already_running', None); a.pop('last_dispatch', None)
            if not a.get('time_already_off'):
                a['time_already_off'] = r2(st)
    if dict_costs and not simple:
        # cost parameters given as interval data that cover only a part of the horizon (elsewhere the documented default 0 applies)
        pts = grid_points(g)
        mid = naive_str(pts[len(pts) // 2])
        if local_ok(mid, g.get('tz')):
            far1 = str(pd.Timestamp(g['end']) + pd.Timedelta(days=30))
            k = pick(rng, ['start_costs', 'running_costs', 'extra_costs'])
            a[k] = {'start': [mid], 'end': [far1], 'values': [r2(pick(rng, [1., 4.]) * (f if k == 'running_costs' else 1.))]}
    has_fuel = (len(nodes) == (3 if chp else 2))
    if has_fuel:
        a['fuel_efficiency'] = pick(rng, [1., 0.5, 0.4])
        if lp_ramp:
            pass
        elif rng.random() < 0.5:
            a['consumption_if_on'] = r2(pick(rng, [0.1, 0.5]) * f)
        if not lp_ramp and rng.random() < 0.5:
            a['start_fuel'] = pick(rng, [0.5, 2.])
    if chp:
        a['conversion_factor_power_heat'] = pick(rng, [1., 0.5, 0.2])
        a['max_share_heat'] = pick(rng, [0.5, 1., 2.])
    return a


# ------------------------------------------------------------------------------------------------
# portfolios
# ------------------------------------------------------------------------------------------------
def gen_lp_portfolio(rng, g=None, types=('contract', 'transport', 'storage', 'multi'), n_assets=(1, 5), n_nodes=(1, 3),
                     market=True, window=True, inflow=True, names=None, grid_kw=None):
    """Random LP portfolio over the C02 asset classes. Returns a spec (with prices)."""
    g = g or gen_grid(rng, **(grid_kw or {}))
    f = UNIT_F[g['unit']]
    T = len(grid_points(g))
    nn = int(rng.integers(n_nodes[0], n_nodes[1] + 1))
    nodes = ['n%d' % i for i in range(nn)]
    assets = []
    pk = []
    if market:
        for i, n in enumerate(nodes):
            assets.append(gen_market(rng, 'mkt%d' % i, n, f, 'p%d' % i))
            pk.append('p%d' % i)
    k = int(rng.integers(n_assets[0], n_assets[1] + 1))
    for j in range(k):
        ty = pick(rng, list(types))
        key = 'q%d' % j
        if ty == 'contract':
            assets.append(gen_contract(rng, g, 'c%d' % j, pick(rng, nodes), f, key, window=window)); pk.append(key)
        elif ty == 'transport' and nn > 1:
            n1, n2 = [nodes[int(i)] for i in rng.permutation(nn)[:2]]
            assets.append(gen_transport(rng, g, 't%d' % j, n1, n2, f, cost_key=key, window=window)); pk.append(key)
        elif ty == 'storage':
            nds = [pick(rng, nodes)] if (nn == 1 or rng.random() < 0.6) else [nodes[int(i)] for i in rng.permutation(nn)[:2]]
            assets.append(gen_storage(rng, g, 's%d' % j, nds, f, price_key=key, window=window, inflow=inflow)); pk.append(key)
        elif ty == 'multi' and nn > 1:
            nds = [nodes[int(i)] for i in rng.permutation(nn)[:int(rng.integers(2, nn + 1))]]
            assets.append(gen_multicommodity(rng, g, 'mc%d' % j, nds, f, key)); pk.append(key)
        elif ty == 'orderbook':
            assets.append(gen_orderbook(rng, g, 'ob%d' % j, pick(rng, nodes)))
        else:
            assets.append(gen_contract(rng, g, 'c%d' % j, pick(rng, nodes), f, key, window=window)); pk.append(key)
    if rng.random() < 0.5:
        perm = rng.permutation(len(assets))
        assets = [assets[int(i)] for i in perm]
    spec = {'grid': g, 'assets': assets, 'prices': gen_prices(rng, T, sorted(set(pk)))}
    return spec


def strip_private(spec):
    """spec without generator annotations (keys starting with '_') - what defines the case."""
    def rec(x):
        if isinstance(x, dict):
            return {k: rec(v) for k, v in x.items() if not str(k).startswith('_')}
        if isinstance(x, list):
            return [rec(v) for v in x]
        return x
    return rec(spec)


def abbreviate(spec):
    """short description of a spec for the evidence samples."""
    def ab(a):
        d = {'type': a['type'], 'name': a['name'], 'nodes': a.get('nodes')}
        for k in ('start', 'end', 'freq', 'periodicity', 'min_cap', 'max_cap', 'eff_in', 'efficiency', 'inflow', 'block_size',
                  'min_take', 'max_take', 'size', 'start_level', 'end_level', 'min_scale', 'max_scale'):
            if a.get(k) is not None:
                d[k] = a[k]
        if 'base' in a:
            d['base'] = ab(a['base'])
        if 'assets' in a:
            d['assets'] = [ab(x) for x in a['assets']]
        if 'orders' in a:
            d['n_orders'] = len(a['orders']['start'])
        return d
    return {'grid': spec['grid'], 'assets': [ab(a) for a in spec['assets']]}


# ------------------------------------------------------------------------------------------------
# mixed portfolios (any asset type) - C01, C03, C04, C07, C09, ...
# ------------------------------------------------------------------------------------------------
COARSE_OF = {'15min': ['h', '2h'], '30min': ['h', '2h'], 'h': ['2h', '4h', 'd'], '2h': ['4h', 'd'], '4h': ['d'], 'd': ['2d', '3d', '7d']}
PERIOD_OF = {'15min': [('h', None), ('2h', '4h')], '30min': [('2h', None), ('4h', 'd'), ('2h', '8h')],
             'h': [('4h', None), ('d', None), ('4h', 'd'), ('6h', 'd'), ('4h', '12h'), ('6h', '24h'), ('4h', '1d')],
             '2h': [('d', None), ('8h', 'd'), ('4h', '12h'), ('8h', '24h')], '4h': [('d', None), ('d', '2d'), ('1d', '2d')]}       # (durations as bare units and as multiples)

ALL_KINDS = ('contract', 'transport', 'storage', 'multi', 'orderbook', 'plant', 'chp', 'scaled', 'structured', 'coarse', 'periodic',
             'storage_mip', 'storage_blocks', 'linked', 'chp_minload')


def gen_mixed_portfolio(rng, kinds=ALL_KINDS, g=None, n_assets=(2, 6), n_nodes=(1, 3), grid_kw=None, window=True, mip_ok=True, campaign=True, data_caps=False):
    grid_kw = dict(grid_kw or {})
    cap_levels = {}
    need_sub = any(k in kinds for k in ('coarse', 'periodic'))
    g = g or gen_grid(rng, **grid_kw)
    f = UNIT_F[g['unit']]
    T = len(grid_points(g))
    nn = int(rng.integers(n_nodes[0], n_nodes[1] + 1))
    nodes = ['n%d' % i for i in range(nn)]
    assets = []; pk = []
    for i, n in enumerate(nodes):
        assets.append(gen_market(rng, 'mkt%d' % i, n, f, 'p%d' % i)); pk.append('p%d' % i)
    k = int(rng.integers(n_assets[0], n_assets[1] + 1))
    kinds = [x for x in kinds if mip_ok or x not in ('plant', 'chp', 'storage_mip', 'linked', 'chp_minload')]
    for j in range(k):
        ty = pick(rng, kinds)
        key = 'q%d' % j; pk.append(key)
        if ty == 'contract':
            ck_ = ('cap%d' % j) if (data_caps and rng.random() < 0.3) else None
            assets.append(gen_contract(rng, g, 'c%d' % j, pick(rng, nodes), f, key, window=window, cap_key=ck_))
            if assets[-1].get('_cap_level'):
                cap_levels[ck_] = assets[-1]['_cap_level']; pk.append(ck_)
        elif ty == 'transport' and nn > 1:
            n1, n2 = [nodes[int(i)] for i in rng.permutation(nn)[:2]]
            assets.append(gen_transport(rng, g, 't%d' % j, n1, n2, f, cost_key=key, window=window))
        elif ty == 'storage':
            nds = [pick(rng, nodes)] if (nn == 1 or rng.random() < 0.6) else [nodes[int(i)] for i in rng.permutation(nn)[:2]]
            assets.append(gen_storage(rng, g, 's%d' % j, nds, f, price_key=key, window=window))
        elif ty == 'storage_mip':
            a = gen_storage(rng, g, 'sm%d' % j, [pick(rng, nodes)], f, price_key=None, window=False, mip=True, inflow=False)
            if window and a.get('no_simult_in_out') and rng.random() < 0.4:
                a['start'], a['end'], _kw = gen_window(rng, g, kinds=['inside', 'straddle_start', 'straddle_end', 'start_only', 'end_only'])      # a lifetime of its own
            a['start_level'] = 0.; a['end_level'] = 0.
            if a['size'] == 0:
                a['size'] = 5.
            assets.append(a)
        elif ty == 'storage_blocks' and not g['freq'].endswith('d'):
            a = gen_storage(rng, g, 'sb%d' % j, [pick(rng, nodes)], f, price_key=None, window=False)
            a['end_level'] = a['start_level']
            a['block_size'] = pick(rng, ['d', '12h', '6h'])
            assets.append(a)
        elif ty == 'multi' and nn > 1:
            nds = [nodes[int(i)] for i in rng.permutation(nn)[:int(rng.integers(2, nn + 1))]]
            assets.append(gen_multicommodity(rng, g, 'mc%d' % j, nds, f, key))
        elif ty == 'orderbook':
            assets.append(gen_orderbook(rng, g, 'ob%d' % j, pick(rng, nodes), full_exec=(mip_ok and rng.random() < 0.25)))
        elif ty in ('plant', 'chp'):
            fuel = 'fuel%d' % j
            if ty == 'plant':
                nds = [pick(rng, nodes)] + ([fuel] if rng.random() < 0.6 else [])
            else:
                heat = 'heat%d' % j
                nds = [pick(rng, nodes), heat] + ([fuel] if rng.random() < 0.6 else [])
                assets.append(gen_market(rng, 'mkt_' + heat, heat, f, key, spread=0.5, cap=30.))
            if fuel in nds:
                assets.append({'type': 'SimpleContract', 'name': 'mkt_' + fuel, 'nodes': [fuel], 'price': key, 'min_cap': 0., 'max_cap': 200. * f, 'extra_costs': 0., 'wacc': 0.})
            assets.append(gen_plant(rng, g, ('pl%d' if ty == 'plant' else 'chp%d') % j, nds, f, 'p0', chp=(ty == 'chp'), simple=rng.random() < 0.4, dict_costs=rng.random() < 0.3))
            if ty == 'chp' and fuel in nds and rng.random() < 0.2:
                # CHPAsset used as a plain power plant: the documented flag _no_heat with nodes [power, fuel]
                pa = assets[-1]
                pa['nodes'] = [nds[0], fuel]; pa['x_no_heat'] = True
                for kk in ('conversion_factor_power_heat', 'max_share_heat', 'start_ramp_lower_bounds_heat', 'start_ramp_upper_bounds_heat', 'shutdown_ramp_lower_bounds_heat',
                           'shutdown_ramp_upper_bounds_heat'):
                    pa.pop(kk, None)
            if window and rng.random() < 0.3:
                # a plant with a lifetime of its own inside / across the horizon
                s_, e_, _k = gen_window(rng, g, kinds=['inside', 'inside', 'straddle_start', 'straddle_end', 'start_only', 'end_only'])
                assets[-1]['start'] = s_; assets[-1]['end'] = e_
        elif ty == 'scaled':
            base = pick(rng, ['storage', 'contract', 'transport', 'storage', 'contract', 'transport', 'orderbook'])
            if base == 'orderbook':
                b = gen_orderbook(rng, g, 'sc_base%d' % j, pick(rng, nodes), n_orders=int(rng.integers(1, 6)), full_exec=False)
            elif base == 'storage':
                b = gen_storage(rng, g, 'sc_base%d' % j, [pick(rng, nodes)], f, window=False)
            elif base == 'transport' and nn > 1:
                n1, n2 = [nodes[int(i)] for i in rng.permutation(nn)[:2]]
                b = gen_transport(rng, g, 'sc_base%d' % j, n1, n2, f, window=False, extended=False)
            else:
                b = gen_contract(rng, g, 'sc_base%d' % j, pick(rng, nodes), f, key, window=False, dict_caps=False)
            s, e, kk = gen_window(rng, g, kinds=['none', 'none', 'inside', 'straddle_end'])
            if rng.random() < 0.4 and base != 'orderbook':
                b['start'], b['end'], _kb = gen_window(rng, g, kinds=['inside', 'straddle_start', 'straddle_end', 'start_only', 'end_only'])      # the base's own lifetime
            assets.append({'type': 'ScaledAsset', 'name': 'sc%d' % j, 'base': b, 'min_scale': pick(rng, [0., 0.5]), 'max_scale': pick(rng, [1., 3.]),
                           'norm_scale': pick(rng, [1., 2.]), 'fix_costs': r2(pick(rng, [0., 0.1, 1.]) * f), 'start': s, 'end': e, 'wacc': 0.})
        elif ty == 'structured':
            inner_nodes = ['in%d_%d' % (j, q) for q in range(int(rng.integers(1, 3)))]
            ext = pick(rng, nodes)
            inner = [gen_storage(rng, g, 'st_s%d' % j, [inner_nodes[0]], f, window=False),
                     gen_transport(rng, g, 'st_t%d' % j, inner_nodes[0], ext, f, window=False, extended=False)]
            if len(inner_nodes) > 1:
                inner.append(gen_transport(rng, g, 'st_u%d' % j, ext, inner_nodes[1], f, window=False, extended=False))
                inner.append(gen_contract(rng, g, 'st_c%d' % j, inner_nodes[1], f, key, window=False, take=False))
            inner.append({'type': 'SimpleContract', 'name': 'st_m%d' % j, 'nodes': [inner_nodes[0]], 'price': key, 'min_cap': -2. * f, 'max_cap': 2. * f, 'extra_costs': 0.2, 'wacc': 0.})
            assets.append({'type': 'StructuredAsset', 'name': 'struct%d' % j, 'nodes': [ext], 'assets': inner})
        elif ty == 'linked':
            # LinkedAsset: asset 2 of the wrapped pair may only dispatch while asset 1 is on (time_back / time_forward in main time units)
            heat = 'lkheat%d' % j
            nd = pick(rng, nodes)
            st_ = float(pd.Timedelta(to_offset(g['freq'])) / pd.Timedelta(1, g['unit']))
            a1 = {'type': 'CHPAsset', 'name': 'lk%d_a1' % j, 'nodes': [nd, heat], 'price': key, 'min_cap': r2(2. * f), 'max_cap': r2(5. * f), 'extra_costs': 1., 'wacc': 0.}
            a2 = {'type': 'CHPAsset', 'name': 'lk%d_a2' % j, 'nodes': [nd, heat], 'price': key, 'min_cap': r2(1. * f), 'max_cap': r2(8. * f), 'extra_costs': 0.5, 'wacc': 0.}
            assets.append({'type': 'SimpleContract', 'name': 'mkt_' + heat, 'nodes': [heat], 'price': key, 'min_cap': -30. * f, 'max_cap': 30. * f, 'extra_costs': 0.3, 'wacc': 0.})
            assets.append({'type': 'LinkedAsset', 'name': 'linked%d' % j, 'nodes': [nd, heat], 'assets': [a1, a2], 'asset1_variable': [a2['name'], 'disp', nd],
                           'asset2_variable': [a1['name'], 'bool_on', None], 'time_back': r2(st_ * pick(rng, [0, 0, 1])), 'time_forward': r2(st_ * pick(rng, [0, 0, 1]))})
            if rng.random() < 0.4:
                assets[-1]['asset2_time_already_running'] = r2(st_ * pick(rng, [1, 2, 3]))
            if window and rng.random() < 0.35:
                s_, e_, _k = gen_window(rng, g, kinds=['inside', 'inside', 'straddle_start', 'straddle_end', 'start_only', 'end_only'])      # a lifetime of its own
                assets[-1]['start'] = s_; assets[-1]['end'] = e_
        elif ty == 'chp_minload':
            heat = 'mlheat%d' % j
            nd = pick(rng, nodes)
            assets.append({'type': 'SimpleContract', 'name': 'mkt_' + heat, 'nodes': [heat], 'price': key, 'min_cap': -30. * f, 'max_cap': 30. * f, 'extra_costs': 0.3, 'wacc': 0.})
            assets.append({'type': 'CHPAsset_with_min_load_costs', 'name': 'ml%d' % j, 'nodes': [nd, heat], 'price': 'p0', 'min_cap': r2(1. * f), 'max_cap': r2(6. * f), 'extra_costs': 0.5, 'wacc': 0.,
                           'min_load_threshhold': r2(3. * f), 'min_load_costs': r2(pick(rng, [0.5, 2.]) * f), 'start_costs': pick(rng, [0., 2.])})
            if window and rng.random() < 0.35:
                s_, e_, _k = gen_window(rng, g, kinds=['inside', 'inside', 'straddle_start', 'straddle_end', 'start_only', 'end_only'])      # a lifetime of its own
                assets[-1]['start'] = s_; assets[-1]['end'] = e_
        elif ty == 'coarse' and g['freq'] in COARSE_OF:
            cf = pick(rng, COARSE_OF[g['freq']])
            base = pick(rng, ['contract', 'contract', 'storage', 'transport'])
            if base == 'storage':
                a = gen_storage(rng, g, 'co%d' % j, [pick(rng, nodes)], f, price_key=key, window=window)
            elif base == 'transport' and nn > 1:
                n1, n2 = [nodes[int(i)] for i in rng.permutation(nn)[:2]]
                a = gen_transport(rng, g, 'co%d' % j, n1, n2, f, cost_key=key, window=window, take=False)
            else:
                a = gen_contract(rng, g, 'co%d' % j, pick(rng, nodes), f, key, window=window, take=False, dict_caps=False)
            a['freq'] = cf; a['wacc'] = 0.
            a['name'] = 'co%d' % j
            if base == 'storage' and mip_ok and rng.random() < 0.3:
                # own coarser frequency together with the no-simultaneous option (appended boolean variables)
                a['no_simult_in_out'] = True; a['eff_in'] = 0.9; a['size'] = max(a['size'], 5.)
            assets.append(a)
        elif ty == 'periodic' and g['freq'] in PERIOD_OF and equal_steps(g) and T >= 8:
            per, dur = pick(rng, PERIOD_OF[g['freq']])
            base = pick(rng, ['contract', 'contract', 'transport'])
            if base == 'transport' and nn > 1:
                n1, n2 = [nodes[int(i)] for i in rng.permutation(nn)[:2]]
                a = gen_transport(rng, g, 'pe%d' % j, n1, n2, f, cost_key=(key if rng.random() < 0.5 else None), window=False, take=(rng.random() < 0.4))      # (also an extended transport with a take: rows of its own)
            else:
                a = gen_contract(rng, g, 'pe%d' % j, pick(rng, nodes), f, key, window=False, take=False, dict_caps=False)
            a['periodicity'] = per
            if dur:
                a['periodicity_duration'] = dur
            a['wacc'] = 0.
            assets.append(a)
        else:
            assets.append(gen_contract(rng, g, 'c%d' % j, pick(rng, nodes), f, key, window=window))
    if 'coarse_pair' in kinds and g['freq'] in COARSE_OF and rng.random() < 0.35:
        # two assets with the same own frequency and the same window but different discount rates (they share one coarse restricted grid geometry)
        cf = pick(rng, COARSE_OF[g['freq']])
        s_, e_, _k = gen_window(rng, g, kinds=['none', 'none', 'inside', 'straddle_end'])
        for q, w in enumerate((pick(rng, [0.2, 0.5]), 0.)):
            a = gen_contract(rng, g, 'cp%d' % q, pick(rng, nodes), f, 'p0', window=False, take=False, dict_caps=False)
            a['freq'] = cf; a['wacc'] = w; a['start'] = s_; a['end'] = e_
            assets.append(a)
    if campaign and rng.random() < 0.25 and T >= 8:
        # a 'campaign' node: every asset attached to it is windowed, with a break in the middle of the horizon (no dispatch variable there at all)
        pts = grid_points(g)
        i1 = int(rng.integers(1, T // 2 - 1)) if T // 2 - 1 > 1 else 1
        i2 = int(rng.integers(T // 2 + 1, T - 1))
        w1 = (None if rng.random() < 0.5 else naive_str(pts[0]), naive_str(pts[i1])); w2 = (naive_str(pts[i2]), None if rng.random() < 0.5 else g['end'])
        if all(local_ok(x, g.get('tz')) for x in w1 + w2 if x is not None):
            pk.append('pcamp')
            for q, (ws, we) in enumerate((w1, w2)):
                assets.append({'type': 'SimpleContract', 'name': 'camp_mkt%d' % q, 'nodes': ['camp'], 'price': 'pcamp', 'min_cap': -30. * f, 'max_cap': 30. * f, 'extra_costs': 0.2,
                               'start': ws, 'end': we, 'wacc': 0.})
                assets.append({'type': 'Transport', 'name': 'camp_link%d' % q, 'nodes': [nodes[0], 'camp'] if q == 0 else ['camp', nodes[0]], 'min_cap': 0., 'max_cap': 2. * f,
                               'efficiency': pick(rng, [1., 0.9]), 'costs_const': 0.1, 'start': ws, 'end': we, 'wacc': 0.})
    if campaign and rng.random() < 0.15 and T >= 6:
        # a delivery point: a flexible consumer (can only take: min_cap < 0 = max_cap) fed through a link that exists for a part of the horizon only -
        # in the other steps nothing that could deliver is attached to the node
        pts = grid_points(g)
        i1 = int(rng.integers(2, T - 1))
        cut = naive_str(pts[i1])
        if local_ok(cut, g.get('tz')):
            pk.append('psink')
            first = rng.random() < 0.5
            assets.append({'type': 'SimpleContract', 'name': 'sink_take', 'nodes': ['sink'], 'price': 'psink', 'min_cap': -4. * f, 'max_cap': 0., 'extra_costs': 0., 'wacc': 0.})
            assets.append({'type': 'Transport', 'name': 'sink_feed', 'nodes': [nodes[0], 'sink'], 'min_cap': 0., 'max_cap': 3. * f, 'efficiency': pick(rng, [1., 0.9]), 'costs_const': 0.1,
                           'start': None if first else cut, 'end': cut if first else None, 'wacc': 0.})
    if rng.random() < 0.6:
        perm = rng.permutation(len(assets))
        assets = [assets[int(i)] for i in perm]
    if rng.random() < 0.4:
        # order book as the last asset (its trailing orders may have no step in the horizon / in a split interval)
        obs = [a for a in assets if a['type'] == 'OrderBook']
        if obs:
            assets = [a for a in assets if a is not obs[-1]] + [obs[-1]]
    spec = {'grid': g, 'assets': assets, 'prices': gen_prices(rng, T, sorted(set(pk)), cap_levels=cap_levels)}
    if cap_levels:
        spec['_cap_levels'] = cap_levels
    return spec


def asset_types(spec):
    out = []
    def rec(a):
        out.append(a['type'] + ('+freq' if a.get('freq') else '') + ('+periodic' if a.get('periodicity') else '') +
                   ('+blocks' if a.get('block_size') else '') + ('+nosimult' if a.get('no_simult_in_out') else '') +
                   ('+maxdur' if a.get('max_store_duration') else '') + ('+fullexec' if a.get('full_exec') else ''))
        if 'base' in a:
            rec(a['base'])
        for x in a.get('assets', []):
            rec(x)
    for a in spec['assets']:
        rec(a)
    return out


def is_mip(spec):
    ts = ' '.join(asset_types(spec))
    return any(k in ts for k in ('Plant', 'CHPAsset', 'LinkedAsset', '+nosimult', '+maxdur', '+fullexec'))
