"""pytest plugin: run the repository's own test suite with the passive monitors attached (extra workload + false-alarm probe).

usage (from the runner, thorough tier):  EAOMON_PROP=C07 EAOMON_OUT=<file.jsonl> pytest -p eaomon.pytest_plugin <repo>/tests
Each test is one case; the monitors of the selected property are evaluated on the events the test produced.
"""
import os, json, traceback
import numpy as np

PROP = os.environ.get('EAOMON_PROP', 'C07')
OUT = os.environ.get('EAOMON_OUT')
_state = {}


def pytest_configure(config):
    from eaomon import env, attach
    env.use_repo()
    attach.install()
    _state['n'] = 0
    _state['fh'] = open(OUT, 'w') if OUT else None


def pytest_runtest_setup(item):
    from eaomon import attach
    rec = attach.Recorder()
    attach._active = rec
    _state['rec'] = rec


def _portfolio_of(rec, op):
    """(portfolio object, [(setup event, children)]) for the problem object `op` produced in this test."""
    for e in rec.of('split_setup'):
        if e.ret is op:
            kids = [k for k in rec.events if k.kind == 'portfolio_setup' and k.parent == e.id and k.snap is not None]
            return e.obj, [(k, rec.children(k, 'asset_setup')) for k in kids]
    for e in rec.of('portfolio_setup'):
        if e.ret is op and not e.args.get('costs_only'):
            return e.obj, [(e, rec.children(e, 'asset_setup'))]
    return None, None


def pytest_runtest_teardown(item, nextitem):
    from eaomon import attach
    from eaomon.case import Case
    rec = _state.get('rec')
    attach._active = None
    if rec is None:
        return
    _state['n'] += 1
    case = Case(PROP, 100000 + _state['n'], 0)
    case.sample = {'repository_test': item.nodeid}
    case.key = 'suite:' + item.nodeid
    case.spec = {'repository_test': item.nodeid}
    try:
        if PROP == 'C19':
            from eaomon.mon_grid import mon_timegrid
            for ev in rec.of('timegrid'):
                if ev.exc is None:
                    mon_timegrid(case, ev)
        elif PROP == 'C07':
            from eaomon.mon_problem import mon_mapping_asset, mon_mapping_portfolio
            for ev in rec.of('asset_setup'):
                if ev.snap is not None and not ev.args.get('costs_only'):
                    mon_mapping_asset(case, ev)
            for pev in rec.of('portfolio_setup'):
                if pev.snap is not None:
                    mon_mapping_portfolio(case, pev, rec.children(pev, 'asset_setup'))
        elif PROP == 'C03':
            from eaomon.mon_problem import mon_optimize
            for ev in rec.of('optimize'):
                if ev.snap is not None and len(ev.snap.c) <= 4000 and ev.args.get('interface', 'cvxpy') == 'cvxpy':
                    mon_optimize(case, ev, time_limit=60.)
        elif PROP in ('C01', 'C04'):
            from eaomon.mon_output import mon_balance_output, mon_value_accounting
            for ev in rec.of('extract'):
                out = ev.ret
                if not isinstance(out, dict) or out.get('dispatch') is None:
                    continue
                portf = ev.args.get('portf'); op = ev.args.get('op'); res = ev.args.get('res')
                if PROP == 'C01':
                    if 'slp_step' in ' '.join(map(str, op.mapping.columns)):
                        continue                  # SLP outputs average over samples: no nodal claim on the table
                    if mon_balance_output(case, portf, out):
                        case.nontrivial = True
                else:
                    p2, setups = _portfolio_of(rec, op)
                    if setups and p2 is portf and hasattr(portf, 'timegrid'):
                        if mon_value_accounting(case, portf, res, out, setups, portf.timegrid.T):
                            case.nontrivial = True
    except Exception as e:
        case.inconc('harness_error: %s: %s | %s' % (type(e).__name__, str(e)[:160], traceback.format_exc().strip().splitlines()[-2:]))
        case.stats['harness_error'] += 1
    case.event('suite_test')
    for k in ('timegrid', 'asset_setup', 'portfolio_setup', 'optimize', 'extract'):
        case.event('suite_' + k, rec.counts.get(k, 0))
    if sum(case.evaluated.values()) > 0 and PROP not in ('C01', 'C04'):
        case.nontrivial = True
    if _state['fh']:
        _state['fh'].write(case.dumps() + '\n'); _state['fh'].flush()
    _state['rec'] = None


def pytest_unconfigure(config):
    if _state.get('fh'):
        _state['fh'].close()
