"""JSON-able 'spec' -> fresh EAO objects; and an independent UTC clock for the reference models.

A spec is a plain dict:
  grid   : {start, end, freq, unit, tz}           (start/end: naive local ISO strings)
  assets : [ {type, name, nodes:[names], <constructor parameters in plain values>} ]
  prices : {key: [floats]}                         (length T)
Dates inside parameters are ISO strings; interval dictionaries are {'start':[..],'end':[..],'values':[..]}.
Wrappers: ScaledAsset has 'base': <asset spec>; StructuredAsset/LinkedAsset have 'assets': [<asset specs>].
The reference models are built from the spec only, never from EAO objects.
"""
import copy
import numpy as np
import pandas as pd

UNIT_NS = {'h': 3600e9, 'd': 86400e9, 'min': 60e9, 's': 1e9}

DATE_KEYS = ('start', 'end')
INTERVAL_KEYS = ('min_cap', 'max_cap', 'extra_costs', 'min_take', 'max_take', 'start_costs', 'running_costs',
                 'max_share_heat', 'conversion_factor_power_heat', 'start_fuel', 'fuel_efficiency',
                 'consumption_if_on', 'min_load_threshhold', 'min_load_costs')


def to_date(x, form='datetime', tz=None):
    """ISO string -> the date object handed to EAO. form in datetime | timestamp | date(if midnight) |
    aware_utc / aware_other (the same instant as a zone-aware Timestamp in UTC / another zone; needs the grid zone tz)."""
    if x is None:
        return None
    t = pd.Timestamp(x)
    if form in ('aware_utc', 'aware_other'):
        if tz is None or t.tzinfo is not None:
            return t.to_pydatetime()
        return t.tz_localize(tz).tz_convert('UTC' if form == 'aware_utc' else 'Asia/Kolkata')
    if form == 'aware_zoneinfo':
        # a plain python datetime carrying a standard-library zone (zoneinfo) - the grid's own zone
        if tz is None or t.tzinfo is not None:
            return t.to_pydatetime()
        import zoneinfo
        return t.tz_localize(tz).to_pydatetime().astimezone(zoneinfo.ZoneInfo(tz))
    if form == 'timestamp':
        return t
    if form == 'date' and t == t.normalize() and t.tzinfo is None:
        return t.date()
    return t.to_pydatetime()


def conv_interval(d, form='datetime', container='list', tz=None):
    out = {}
    if form in ('aware_utc', 'aware_other', 'aware_zoneinfo'):
        container = 'list'
    for k, v in d.items():
        if k in ('start', 'end'):
            if isinstance(v, (list, tuple)):
                vals = [to_date(x, form, tz) for x in v]
                if container == 'dtindex':
                    vals = pd.DatetimeIndex([pd.Timestamp(x) for x in v])
                elif container == 'dtrange_tz':
                    # a zone-aware index with a calendar frequency, as pd.date_range produces it (daily steps in local time)
                    vals = pd.date_range(start=pd.Timestamp(v[0]), periods=len(v), freq='D', tz=tz)
                elif container == 'array':
                    vals = np.array([pd.Timestamp(x) for x in v])
                elif container in ('np_D', 'np_h', 'np_m', 'np_ns'):
                    # numpy datetime64 array in a given unit (only if every date is representable in it, else ns)
                    ts = [pd.Timestamp(x) for x in v]
                    unit = container[3:]
                    ok = all(t == t.floor({'D': 'D', 'h': 'h', 'm': 'min', 'ns': 'ns'}[unit]) for t in ts)
                    vals = np.array([np.datetime64(t.to_datetime64(), unit if ok else 'ns') for t in ts], dtype='datetime64[%s]' % (unit if ok else 'ns'))
                out[k] = vals
            else:
                out[k] = to_date(v, form, tz)
        else:
            out[k] = copy.deepcopy(v) if not (container == 'array' and isinstance(v, list)) else np.asarray(v, dtype=float)
    return out


class Built:
    """Result of build(): portfolio, timegrid, prices, plus lookup tables."""
    def __init__(self):
        self.portfolio = None
        self.timegrid = None
        self.prices = None
        self.nodes = {}
        self.assets = {}       # name -> top-level EAO asset
        self.all_assets = {}   # name -> any EAO asset incl. wrapped ones


def build_timegrid(g):
    from eaopack.basic_classes import Timegrid
    form = g.get('date_form', 'timestamp')
    if g.get('x_zone_in_dates') and g.get('tz'):
        # the zone is carried by the dates only (no timezone argument): Timegrid.tz stays None, the time points are zone-aware
        return Timegrid(pd.Timestamp(g['start'], tz=g['tz']), pd.Timestamp(g['end'], tz=g['tz']), freq=g['freq'], main_time_unit=g.get('unit', 'h'))
    return Timegrid(to_date(g['start'], form), to_date(g['end'], form), freq=g['freq'],
                    main_time_unit=g.get('unit', 'h'), timezone=g.get('tz'))


def _node(built, name):
    from eaopack.basic_classes import Node
    if name not in built.nodes:
        built.nodes[name] = Node(name)
    return built.nodes[name]


def build_asset(a, built, tz=None):
    """One asset spec -> EAO asset (recursively for wrappers)."""
    import eaopack.assets as EA
    import eaopack.portfolio as EP
    a = copy.deepcopy(a)
    typ = a.pop('type')
    form = a.pop('_date_form', 'datetime')
    container = a.pop('_container', 'list')
    seq_form = a.pop('_seq_form', 'list')
    node_names = a.pop('nodes', None)
    kw = {}
    for k, v in a.items():
        if k.startswith('_'):
            continue
        if k in DATE_KEYS:
            kw[k] = to_date(v, form, tz)
        elif k in INTERVAL_KEYS and isinstance(v, dict):
            kw[k] = conv_interval(v, form, container, tz)
        elif k == 'orders':
            o = {}
            for kk, vv in v.items():
                if kk in ('start', 'end'):
                    o[kk] = [pd.Timestamp(x, tz=tz) for x in vv]
                    if tz is not None and a.get('_orders_tz'):
                        o[kk] = [x.tz_convert(a['_orders_tz']) for x in o[kk]]        # the same instants quoted in another zone
                else:
                    o[kk] = list(vv)
            if a.get('_orders_as_df'):
                o = pd.DataFrame(o)
            kw[k] = o
        elif k in ('base', 'assets'):
            continue
        elif k == 'x_no_heat':
            kw['_no_heat'] = bool(v)
        elif seq_form != 'list' and isinstance(v, list) and (k.endswith('_bounds') or k.endswith('_bounds_heat')):
            # numeric sequences handed over as numpy arrays / tuples (objects the user keeps and may reuse)
            kw[k] = np.asarray(v, dtype=float) if seq_form == 'array' else tuple(v)
        else:
            kw[k] = copy.deepcopy(v)
    if a.get('_take_scalar'):
        for k in ('min_take', 'max_take'):
            if isinstance(kw.get(k), dict) and len(kw[k].get('values', [])) == 1 and not isinstance(kw[k]['start'], (np.ndarray, pd.DatetimeIndex)):
                kw[k] = {kk: (vv[0] if isinstance(vv, list) else vv) for kk, vv in kw[k].items()}
    nodes = [_node(built, n) for n in node_names] if node_names is not None else None
    if typ == 'ScaledAsset':
        base = build_asset(a['base'], built, tz)
        obj = EA.ScaledAsset(base_asset=base, **kw)
    elif typ in ('StructuredAsset', 'LinkedAsset'):
        inner = [build_asset(x, built, tz) for x in a['assets']]
        cls = getattr(EP, typ)
        for key in ('asset1_variable', 'asset2_variable'):
            if key in kw:
                kw[key] = tuple(kw[key])
        obj = cls(portfolio=EP.Portfolio(inner), nodes=nodes, **kw)
    else:
        cls = getattr(EA, typ)
        if typ in ('Storage', 'SimpleContract', 'Contract', 'OrderBook') and len(nodes) == 1:
            obj = cls(nodes=nodes[0], **kw)
        elif typ == 'Plant' and len(nodes) == 1:
            obj = cls(nodes=nodes[0], **kw)
        else:
            obj = cls(nodes=nodes, **kw)
    built.all_assets[obj.name] = obj
    return obj


def build(spec, with_grid=True):
    """Fresh EAO objects from a spec."""
    from eaopack.portfolio import Portfolio
    b = Built()
    tz = spec['grid'].get('tz')
    assets = [build_asset(a, b, tz) for a in spec['assets']]
    for o in assets:
        b.assets[o.name] = o
    b.portfolio = Portfolio(assets)
    if with_grid:
        b.timegrid = build_timegrid(spec['grid'])
    b.prices = {k: np.asarray(v, dtype=float) for k, v in spec.get('prices', {}).items()}
    return b


# ------------------------------------------------------------------------------------------------
# independent clock (UTC nanoseconds) - never uses EAO's Timegrid
# ------------------------------------------------------------------------------------------------
class Clock:
    def __init__(self, g):
        self.tz = g.get('tz')
        self.unit = g.get('unit', 'h')
        s = self.ts(g['start'])
        e = self.ts(g['end'])
        pts = pd.date_range(start=s, end=e, freq=g['freq'])
        # absolute instants (ns since epoch; UTC for zone-aware stamps): step lengths are real elapsed time
        utc = np.array([p.value for p in pts], dtype=np.int64)
        pts = pts[:-1]          # the last point of the range only closes the last step
        self.points = pts
        self.T = len(pts)
        self.utc = utc[:self.T + 1].astype(float)
        self.dt = (self.utc[1:] - self.utc[:-1]) / UNIT_NS[self.unit]
        self.elapsed_end_days = (self.utc[1:] - self.utc[0]) / UNIT_NS['d']
        self.start = s
        self.end = e

    def ts(self, x):
        t = pd.Timestamp(x)
        if t.tzinfo is None and self.tz is not None:
            t = t.tz_localize(self.tz)
        return t

    def window(self, start=None, end=None):
        s = self.ts(start) if start is not None else None
        e = self.ts(end) if end is not None else None
        return [t for t in range(self.T) if (s is None or self.points[t] >= s) and (e is None or self.points[t] < e)]

    def disc(self, wacc):
        return (1. + wacc) ** (-self.elapsed_end_days / 365.)

    def interval_values(self, d, default=None):
        """naive model of interval data -> array on the grid (NaN where undefined)."""
        out = np.full(self.T, np.nan)
        starts = list(d['start']) if isinstance(d['start'], (list, tuple)) else [d['start']]
        vals = list(d['values']) if isinstance(d['values'], (list, tuple)) else [d['values']]
        if 'end' in d:
            ends = list(d['end']) if isinstance(d['end'], (list, tuple)) else [d['end']]
        else:
            ends = None
        for i, s in enumerate(starts):
            s_ = self.ts(s)
            if ends is not None:
                e_ = self.ts(ends[i])
            elif i + 1 < len(starts):
                e_ = self.ts(starts[i + 1])
            else:
                e_ = None
            for t in range(self.T):
                if self.points[t] >= s_ and (e_ is None or self.points[t] < e_):
                    out[t] = vals[i]
        if default is not None:
            out[np.isnan(out)] = default
        return out

    def vec(self, v, prices, default=None):
        """float | price key | interval dict -> array of length T."""
        if isinstance(v, str):
            return np.asarray(prices[v], dtype=float)
        if isinstance(v, dict):
            return self.interval_values(v, default)
        return np.ones(self.T) * float(v)


def local_ok(ts_str, tz):
    """True if the naive local time exists and is unambiguous in tz."""
    if tz is None:
        return True
    try:
        pd.Timestamp(ts_str).tz_localize(tz)
        return True
    except Exception:
        return False
