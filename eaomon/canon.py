"""Structural snapshots / comparison of OptimProblems (solver-free relational oracles)."""
import numpy as np
import scipy.sparse as sp


class Snap:
    """Deep snapshot of an OptimProblem's numeric content and mapping."""
    def __init__(self, op):
        self.c = np.array(op.c, dtype=float).copy()
        self.l = np.array(op.l, dtype=float).copy()
        self.u = np.array(op.u, dtype=float).copy()
        self.A = None if op.A is None else sp.csr_matrix(op.A).copy()
        self.b = None if getattr(op, 'b', None) is None else np.array(op.b, dtype=float).copy()
        self.cType = getattr(op, 'cType', None)
        self.mapping = None if op.mapping is None else op.mapping.copy()
        self.map_nodal_restr = None if getattr(op, 'map_nodal_restr', None) is None else list(op.map_nodal_restr)

    @property
    def n(self):
        return len(self.c)


def vec_diff(a, b, rtol=1e-9):
    a = np.asarray(a, float); b = np.asarray(b, float)
    if a.shape != b.shape:
        return 'shape %s vs %s' % (a.shape, b.shape)
    if len(a) == 0:
        return None
    d = np.abs(a - b)
    tol = rtol * (1. + np.maximum(np.abs(a), np.abs(b)))
    bad = np.where(d > tol)[0]
    if len(bad):
        i = int(bad[0])
        return 'entry %d: %r vs %r (%d entries differ)' % (i, float(a[i]), float(b[i]), len(bad))
    return None


def mat_diff(A, B, rtol=1e-9):
    if A is None and B is None:
        return None
    if A is None:
        A = sp.csr_matrix((0, B.shape[1]))
    if B is None:
        B = sp.csr_matrix((0, A.shape[1]))
    if A.shape != B.shape:
        return 'shape %s vs %s' % (A.shape, B.shape)
    if A.shape[0] == 0 or A.shape[1] == 0:
        return None
    D = abs(sp.csr_matrix(A) - sp.csr_matrix(B))
    if D.nnz == 0:
        return None
    m = D.max()
    scale = 1. + max(abs(A).max() if A.nnz else 0., abs(B).max() if B.nnz else 0.)
    if m > rtol * scale:
        D = D.tocoo()
        k = int(np.argmax(D.data))
        return 'A[%d,%d] differs by %g' % (D.row[k], D.col[k], D.data[k])
    return None


def problem_diff(p, q, rtol=1e-9, compare_mapping=True, rename=None):
    """None if the two snapshots describe the identical problem (same variable and row order)."""
    for name in ('c', 'l', 'u'):
        d = vec_diff(getattr(p, name), getattr(q, name), rtol)
        if d:
            return name + ': ' + d
    if (p.cType or '') != (q.cType or ''):
        return 'cType differs: %r vs %r' % ((p.cType or '')[:60], (q.cType or '')[:60])
    if (p.b is None) != (q.b is None) and (len(p.b if p.b is not None else q.b) > 0):
        return 'b present in one only'
    if p.b is not None and q.b is not None:
        d = vec_diff(p.b, q.b, rtol)
        if d:
            return 'b: ' + d
    d = mat_diff(p.A, q.A, rtol)
    if d:
        return d
    if compare_mapping and p.mapping is not None and q.mapping is not None:
        d = mapping_diff(p.mapping, q.mapping, rename)
        if d:
            return 'mapping: ' + d
    return None


def mapping_rows(m, rename=None):
    """canonical multiset of mapping rows (index, asset, node, type, var_name, time_step, disp_factor, bool)."""
    out = []
    if m is None or len(m) == 0:
        return out
    has_df = 'disp_factor' in m.columns
    has_bool = 'bool' in m.columns
    has_vn = 'var_name' in m.columns
    for idx, r in zip(m.index, m.itertuples(index=False)):
        d = r._asdict()
        asset = d.get('asset'); node = d.get('node')
        if rename:
            asset = rename.get(('a', asset), asset)
            node = rename.get(('n', node), node)
        node = None if (node is None or (isinstance(node, float) and np.isnan(node)) or node == 'nan') else str(node)
        df = d.get('disp_factor') if has_df else 1.
        df = 1. if (df is None or (isinstance(df, float) and np.isnan(df))) else float(df)
        bo = bool(d.get('bool')) if has_bool and d.get('bool') is not None and not (isinstance(d.get('bool'), float) and np.isnan(d.get('bool'))) else False
        vn = str(d.get('var_name')) if has_vn else ''
        out.append((int(idx), str(asset), node, str(d.get('type')), vn, int(d.get('time_step')), round(df, 12), bo))
    return out


def mapping_diff(m1, m2, rename=None):
    r1 = sorted(mapping_rows(m1, rename), key=repr); r2 = sorted(mapping_rows(m2), key=repr)
    if len(r1) != len(r2):
        return '%d rows vs %d rows' % (len(r1), len(r2))
    for a, b in zip(r1, r2):
        if a[:6] != b[:6] or abs(a[6] - b[6]) > 1e-9 * (1 + abs(a[6])) or a[7] != b[7]:
            return 'row %r vs %r' % (a, b)
    return None


def nodal_row_index(snap):
    """Indices of the portfolio's own nodal rows (the last len(map_nodal_restr) rows of type N; structured assets bring inner N rows of their own)."""
    k = len(snap.map_nodal_restr or [])
    N = [i for i, t in enumerate(snap.cType or '') if t == 'N']
    return N[len(N) - k:] if k else []
