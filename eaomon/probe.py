"""Anchor-line probe: which lines of eaopack/*.py did the workload execute (sys.monitoring LINE events, each location fires once)."""
import os, sys, re, json

TOOL = None
HIT = set()


def start(repo):
    global TOOL
    if not hasattr(sys, 'monitoring'):
        return False
    TOOL = sys.monitoring.COVERAGE_ID
    try:
        sys.monitoring.use_tool_id(TOOL, 'eaomon_probe')
    except ValueError:
        return False
    prefix = os.path.join(os.path.realpath(repo), 'eaopack') + os.sep

    def on_line(code, line):
        fn = code.co_filename
        if fn.startswith(prefix) or os.path.realpath(fn).startswith(prefix):
            HIT.add((os.path.basename(fn), line))
        return sys.monitoring.DISABLE
    sys.monitoring.register_callback(TOOL, sys.monitoring.events.LINE, on_line)
    sys.monitoring.set_events(TOOL, sys.monitoring.events.LINE)
    return True


def stop():
    if TOOL is not None:
        sys.monitoring.set_events(TOOL, 0)
    out = {}
    for f, l in HIT:
        out.setdefault(f, []).append(l)
    return {f: sorted(v) for f, v in out.items()}


def executable_lines(path):
    """line numbers that start a statement somewhere in the file (from the compiled code objects)."""
    src = open(path).read()
    code = compile(src, path, 'exec')
    lines = set()
    stack = [code]
    while stack:
        co = stack.pop()
        for _, _, ln in co.co_lines():
            if ln is not None:
                lines.add(ln)
        for c in co.co_consts:
            if hasattr(c, 'co_lines'):
                stack.append(c)
    return lines


def anchor_ranges(prop):
    """[(file, lo, hi, mechanism name)] parsed from the property's anchors.mechanism[].where"""
    out = []
    for m in prop['anchors'].get('mechanism', []):
        where = m.get('where', '')
        cur = None
        for tok in re.split(r'[;,]\s*', where):
            mm = re.search(r'(eaopack/[\w_]+\.py):(\d+)(?:-(\d+))?', tok)
            if mm:
                cur = os.path.basename(mm.group(1)); lo = int(mm.group(2)); hi = int(mm.group(3) or mm.group(2))
                out.append((cur, lo, hi, m.get('name', '')[:60]))
            else:
                mm = re.search(r'^\s*(\d+)(?:-(\d+))?', tok)
                if mm and cur:
                    lo = int(mm.group(1)); hi = int(mm.group(2) or mm.group(1))
                    out.append((cur, lo, hi, m.get('name', '')[:60]))
    return out


def anchor_report(prop, hit, repo):
    rep = []
    cache = {}
    for f, lo, hi, name in anchor_ranges(prop):
        p = os.path.join(repo, 'eaopack', f)
        if f not in cache:
            try:
                cache[f] = executable_lines(p)
            except Exception:
                cache[f] = set()
        ex = {l for l in cache[f] if lo <= l <= hi}
        got = {l for l in hit.get(f, []) if lo <= l <= hi}
        rep.append({'file': f, 'lines': '%d-%d' % (lo, hi), 'mechanism': name, 'executable': len(ex), 'executed': len(got & ex) if ex else len(got)})
    return rep
