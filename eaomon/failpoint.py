"""Source-free failpoints: raise an exception from a sys.monitoring LINE callback at the k-th executed line of eaopack/*.py
during one call (a 'crash' in the middle of a set-up as an element of a call history, C10)."""
import os, sys


class InjectedFault(Exception):
    pass


class Failpoint:
    def __init__(self, repo):
        self.prefix = os.path.join(os.path.realpath(repo), 'eaopack') + os.sep
        self.tool = None
        if hasattr(sys, 'monitoring'):
            for tid in (sys.monitoring.PROFILER_ID, sys.monitoring.DEBUGGER_ID, sys.monitoring.OPTIMIZER_ID):
                try:
                    sys.monitoring.use_tool_id(tid, 'eaomon_failpoint'); self.tool = tid; break
                except ValueError:
                    continue
        self.n = 0
        self.k = None
        self.where = None
        # lines inside 'finally:' blocks are never fault sites: clean-up code there consists of plain assignments that cannot raise in a real
        # execution - injecting there would manufacture failures the program cannot have
        self.cleanup = set()
        import ast, glob
        for fn in glob.glob(os.path.join(self.prefix, '*.py')):
            try:
                tree = ast.parse(open(fn).read())
            except Exception:
                continue
            for node in ast.walk(tree):
                if isinstance(node, ast.Try) and node.finalbody:
                    lo = node.finalbody[0].lineno; hi = max(getattr(n_, 'end_lineno', n_.lineno) for n_ in node.finalbody)
                    for ln in range(lo, hi + 1):
                        self.cleanup.add((os.path.basename(fn), ln))

    @property
    def available(self):
        return self.tool is not None

    def _cb(self, code, line):
        fn = code.co_filename
        if not (fn.startswith(self.prefix) or os.path.realpath(fn).startswith(self.prefix)):
            return sys.monitoring.DISABLE
        if (os.path.basename(fn), line) in self.cleanup:
            return None
        self.n += 1
        if self.k is not None and self.n == self.k:
            self.where = '%s:%d' % (os.path.basename(fn), line)
            self.k = None
            raise InjectedFault('injected at ' + self.where)

    def _run(self, f):
        mon = sys.monitoring
        mon.register_callback(self.tool, mon.events.LINE, self._cb)
        mon.set_events(self.tool, mon.events.LINE)
        try:
            return f()
        finally:
            mon.set_events(self.tool, 0)
            mon.register_callback(self.tool, mon.events.LINE, None)
            mon.restart_events()

    def count(self, f):
        """number of eaopack lines executed by f()"""
        self.n = 0; self.k = None
        self._run(f)
        return self.n

    def inject(self, f, k):
        """run f() and raise InjectedFault at the k-th executed eaopack line. Returns where it was raised (or None if f finished first)."""
        self.n = 0; self.k = int(k); self.where = None
        try:
            self._run(f)
        except InjectedFault:
            pass
        return self.where
