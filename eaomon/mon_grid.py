"""C19 monitors: Timegrid class invariant (evaluated at every Timegrid.__init__ return) and the
naive interval-assignment model for values_to_grid / prices_to_grid."""
import numpy as np
import pandas as pd
from pandas.tseries.frequencies import to_offset

UNIT_NS = {'h': 3600e9, 'd': 86400e9, 'min': 60e9, 's': 1e9}


def _loc(x, tz):
    t = pd.Timestamp(x)
    if t.tzinfo is None and tz is not None:
        t = t.tz_localize(tz)
    return t


def _unit_ns(u):
    if u in UNIT_NS:
        return UNIT_NS[u]
    return float(pd.Timedelta(1, u).value)


def expected_points(start, end, freq, tz):
    """Independent model of the grid points (incl. the closing point) for plain frequencies.
    Returns (list of Timestamps incl. closing point, kind) or (None, kind) if no independent model exists."""
    off = to_offset(freq)
    s = _loc(start, tz); e = _loc(end, tz)
    name = type(off).__name__
    if name in ('Hour', 'Minute', 'Second', 'Milli'):
        delta = pd.Timedelta(off).value          # fixed duration: absolute (UTC) arithmetic
        k = (e.value - s.value) // delta
        pts = [pd.Timestamp(s.value + i * delta, tz='UTC').tz_convert(tz) if tz is not None else pd.Timestamp(s.value + i * delta)
               for i in range(int(k) + 1)]
        return pts, 'fixed'
    if name == 'Day':
        n = off.n                                 # calendar days in local time
        s_naive = s.tz_localize(None) if s.tzinfo is not None else s
        pts = []
        i = 0
        while True:
            p = s_naive + pd.Timedelta(days=i * n)
            try:
                p = p.tz_localize(tz) if tz is not None else p
            except Exception:
                return None, 'day_nonexistent'
            if p > e:
                break
            pts.append(p)
            i += 1
            if i > 100000:
                return None, 'too_long'
        return pts, 'day'
    return None, 'anchored:' + name


def mon_timegrid(case, ev):
    """Timegrid invariant at __init__ return."""
    tg = ev.ret
    if tg is None:
        return
    a = ev.args
    ref = a.get('ref_timegrid')
    if ref is None:
        case.event('timegrid_main')
        _mon_main(case, tg, a)
    else:
        if a.get('freq', 'h') == ref.freq:
            case.event('timegrid_restricted')
            _mon_restricted(case, tg, a, ref)
        else:
            case.event('timegrid_coarse')
            _mon_coarse(case, tg, a, ref)


def _desc(a):
    return {'start': str(a.get('start')), 'end': str(a.get('end')), 'freq': a.get('freq', 'h'),
            'unit': a.get('main_time_unit', 'h'), 'tz': a.get('timezone')}


def _mon_main(case, tg, a):
    tz = a.get('timezone'); freq = a.get('freq', 'h'); unit = a.get('main_time_unit', 'h')
    d = _desc(a)
    tp = pd.DatetimeIndex(tg.timepoints)
    T = len(tp)
    case.check('grid.lengths', T == tg.T == len(tg.dt) == len(tg.Dt) == len(tg.I), grid=d, T=tg.T, n=T)
    case.check('grid.I_is_range', np.array_equal(np.asarray(tg.I), np.arange(T)), grid=d)
    if T == 0:
        return
    s = _loc(a['start'], tz); e = _loc(a['end'], tz)
    v = np.array([p.value for p in tp], dtype=np.int64)
    case.check('grid.increasing', bool(np.all(np.diff(v) > 0)), nonvacuous=T > 1, grid=d)
    case.check('grid.first_is_start', tp[0] == s, grid=d, first=str(tp[0]), anchored=not _plain(freq))
    case.check('grid.points_before_end', bool(tp[-1] < e), grid=d, last=str(tp[-1]))
    exp, kind = expected_points(a['start'], a['end'], freq, tz)
    case.feature('gridkind:' + kind.split(':')[0])
    if exp is not None:
        ok = (len(exp) - 1 == T) and all(p == q for p, q in zip(exp[:-1], tp))
        case.check('grid.points_match_model', ok, grid=d, T=T, T_model=len(exp) - 1)
        closing = exp[-1] if len(exp) - 1 == T else None
    else:
        # anchored frequencies (W, MS, ...): closing point from the offset itself
        closing = tp[-1] + to_offset(freq)
    if closing is not None:
        allv = np.append(v, closing.value).astype(float)
        dt_model = np.diff(allv) / _unit_ns(unit)
        uneq = bool(np.ptp(dt_model) > 1e-12)
        if uneq:
            case.feature('unequal_steps')
        case.check('grid.dt_is_elapsed_time', bool(np.allclose(np.asarray(tg.dt, float), dt_model, rtol=1e-12, atol=1e-12)),
                   grid=d, dt=list(np.asarray(tg.dt, float)[:6]), model=list(dt_model[:6]))
        case.check('grid.dt_unequal_steps', bool(np.allclose(np.asarray(tg.dt, float), dt_model, rtol=1e-12, atol=1e-12)),
                   nonvacuous=uneq, grid=d)
    case.check('grid.Dt_is_cumsum', bool(np.allclose(np.asarray(tg.Dt, float), np.cumsum(np.asarray(tg.dt, float)), rtol=1e-12)), grid=d)


def _plain(freq):
    return type(to_offset(freq)).__name__ in ('Hour', 'Minute', 'Second', 'Milli', 'Day')


def _bounds(tg, a, ref):
    s = a.get('start'); e = a.get('end')
    s = ref.start if s is None else _loc(s, ref.tz)
    e = ref.end if e is None else _loc(e, ref.tz)
    return s, e


def _mon_restricted(case, tg, a, ref):
    s, e = _bounds(tg, a, ref)
    rtp = pd.DatetimeIndex(ref.timepoints)
    mask = np.array([(p >= s) and (p < e) for p in rtp], dtype=bool) if len(rtp) else np.zeros(0, bool)
    d = {'start': str(s), 'end': str(e), 'ref_T': int(ref.T)}
    place = 'inside'
    if len(rtp):
        if e <= rtp[0] or s > rtp[-1]:
            place = 'outside'
        elif s <= rtp[0] and e > rtp[-1]:
            place = 'covers'
        elif s < rtp[0] or e > rtp[-1] + (rtp[-1] - rtp[-2] if len(rtp) > 1 else pd.Timedelta(0)):
            place = 'straddles'
    case.feature('window:' + place)
    nonvac = bool(mask.any() and not mask.all())
    okI = np.array_equal(np.asarray(tg.I), np.asarray(ref.I)[mask])
    case.check('restricted.index_subset', okI, nonvacuous=nonvac, window=d, got=list(map(int, np.asarray(tg.I)[:8])),
               want=list(map(int, np.asarray(ref.I)[mask][:8])))
    case.check('restricted.same_main_time_unit', str(getattr(tg, 'main_time_unit', None)) == str(getattr(ref, 'main_time_unit', None)), window=d,
               unit=str(getattr(tg, 'main_time_unit', None)), ref_unit=str(getattr(ref, 'main_time_unit', None)))
    if okI:
        case.check('restricted.arrays_consistent',
                   tg.T == int(mask.sum()) and all(p == q for p, q in zip(pd.DatetimeIndex(tg.timepoints), rtp[mask]))
                   and np.array_equal(np.asarray(tg.dt), np.asarray(ref.dt)[mask]) and np.array_equal(np.asarray(tg.Dt), np.asarray(ref.Dt)[mask])
                   and (not hasattr(ref, 'discount_factors') or np.array_equal(np.asarray(tg.discount_factors), np.asarray(ref.discount_factors)[mask])),
                   nonvacuous=nonvac, window=d)


def _mon_coarse(case, tg, a, ref):
    s, e = _bounds(tg, a, ref)
    rtp = pd.DatetimeIndex(ref.timepoints)
    d = {'start': str(s), 'end': str(e), 'freq': a.get('freq'), 'ref_freq': ref.freq, 'ref_T': int(ref.T)}
    lists = [list(map(int, x)) for x in tg.I_minor_in_major]
    flat = [i for x in lists for i in x]
    case.check('coarse.lists_disjoint_ordered', flat == sorted(set(flat)) and all(len(x) > 0 for x in lists), window=d)
    inwin = [int(ref.I[k]) for k, p in enumerate(rtp) if (p >= s) and (p < e)]
    case.check('coarse.partition_without_loss', flat == inwin, window=d, covered=len(flat), in_window=len(inwin),
               tail_lost=(len(flat) < len(inwin) and flat == inwin[:len(flat)]),
               head_lost_only=(len(flat) < len(inwin) and flat == inwin[len(inwin) - len(flat):]), anchored=not _plain(a.get('freq', 'h')))
    pos = {int(i): k for k, i in enumerate(np.asarray(ref.I))}
    ok = len(lists) == tg.T == len(tg.dt)
    if ok:
        for k, x in enumerate(lists):
            if not x:
                ok = False; break
            sdt = float(np.asarray(ref.dt)[[pos[i] for i in x]].sum())
            if abs(sdt - float(tg.dt[k])) > 1e-9 * (1 + abs(sdt)) or int(tg.I[k]) != min(x) or pd.Timestamp(tg.timepoints[k]) != rtp[pos[min(x)]] \
                    or float(tg.Dt[k]) != float(np.asarray(ref.Dt)[pos[min(x)]]):
                ok = False; break
    case.check('coarse.dt_sum_and_first_point', ok, window=d)
    # the step lengths of the sub-grid are stated in the reference grid's main time unit - and the sub-grid says so
    case.check('coarse.same_main_time_unit', str(getattr(tg, 'main_time_unit', None)) == str(getattr(ref, 'main_time_unit', None)), window=d,
               unit=str(getattr(tg, 'main_time_unit', None)), ref_unit=str(getattr(ref, 'main_time_unit', None)))


# -------------------------------------------------------------------------------------------------
# interval data: naive model
# -------------------------------------------------------------------------------------------------
def model_values_to_grid(points, tz, inp):
    """Naive model. Returns (values array with NaN, must_raise(bool), claim mask).
    claim mask: False where the documentation makes no sharp statement (beyond the generous extension of an implicit last end)."""
    starts = inp['start']
    if isinstance(starts, pd.DatetimeIndex):
        starts = list(starts)
    if not isinstance(starts, (list, tuple, np.ndarray)):
        starts = [starts]
    vals = inp['values']
    if not isinstance(vals, (list, tuple, np.ndarray)):
        vals = [vals]
    starts = [_loc(x, tz) for x in starts]
    implicit = 'end' not in inp
    if not implicit:
        ends = inp['end']
        if isinstance(ends, pd.DatetimeIndex):
            ends = list(ends)
        if not isinstance(ends, (list, tuple, np.ndarray)):
            ends = [ends]
        ends = [_loc(x, tz) for x in ends]
    else:
        ends = starts[1:] + [None]
    T = len(points)
    out = np.full(T, np.nan)
    claim = np.ones(T, dtype=bool)
    must_raise = False
    for t, p in enumerate(points):
        hits = []
        for i, (s, v) in enumerate(zip(starts, vals)):
            e = ends[i] if i < len(ends) else None
            if p >= s and (e is None or p < e):
                hits.append(i)
        vals_hit = [vals[i] for i in hits if not (isinstance(vals[i], float) and np.isnan(vals[i]))]
        if len(vals_hit) >= 2:
            must_raise = True
        if hits:
            out[t] = vals[hits[-1]]
        if implicit and len(starts) > 1 and hits and hits[-1] == len(starts) - 1:
            # implicit end of the last interval: documented as 'generously extended' -> claim only inside the extension
            # (minus 2 h: wall-clock vs absolute arithmetic across a DST switch is not specified)
            ext = starts[-1] + 2 * (starts[-1] - starts[-2]) - pd.Timedelta(hours=2)
            if p >= ext:
                claim[t] = False
    return out, must_raise, claim
